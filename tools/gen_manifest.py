#!/usr/bin/env python3
"""Writes /verif/MANIFEST.json from the table below (one entry per property that has a check
module under vf/checks) and validates it against /root/.vp/MANIFEST.schema.json if available."""
import json
import os

HERE = os.path.dirname(os.path.dirname(os.path.abspath(__file__)))

TITLES = {
    "C01": "Formula grammar: precedence, associativity, nothing silently ignored",
    "C02": "Term algebra (Wilkinson-Rogers / lme4 set semantics)",
    "C03": "Common-effects matrix: full column rank, spans exactly the model space",
    "C04": "Every design-matrix column holds what its label says",
    "C05": "Group-specific blocks",
    "C06": "New data reproduces the training encoding",
    "C07": "Isolation across evaluations, designs and calls",
    "C08": "Row equivariance, irrelevant frame structure",
    "C09": "Missing-value policy",
    "C10": "Unseen levels and new groups",
    "C11": "Name resolution order and environment",
    "C12": "Call terms evaluate like the Python expression they spell",
    "C13": "Contrast codings",
    "C14": "Stateful transforms",
    "C15": "Response handling",
    "C16": "Helper functions and aliases",
    "C17": "Matrix containers",
}

# property -> (technique, level text, level note, design section)
CHECKS = {
    "C01": (
        "exhaustive enumeration of token sequences + Hypothesis grammar-generated sentences, near-miss mutations and "
        "character-level strings; differential against an independent reference tokeniser and precedence-climbing "
        "parser (vf/refparse.py) plus metamorphic relations (fully parenthesised form, whitespace / parenthesis variants)",
        "Every string of up to 4 (quick) / 5 (thorough; 6 over a 14-symbol sub-alphabet) tokens over a 28-symbol alphabet "
        "is classified by a reference grammar written from the statement (strict and loose reading of '~ lowest, then |'); "
        "non-sentences must be rejected, an accepted sentence must have the reference tree (Grouping kept), the tokens the "
        "reference tokeniser finds, and the same model as its fully parenthesised form.  Hypothesis generates deep "
        "sentences of the term language and of arbitrary expression shape, renders them with drawn whitespace and "
        "redundant parentheses (base and variants must agree on accept/reject and on the model), mutates them into near "
        "misses, and draws character-level strings.",
        "Exploration.  Trusted: vf/refparse.py (cross-checked against the generator's own parenthesisation rule on every "
        "generated sentence).  Rejection of a grammatical sentence is allowed by the statement and is not judged.",
        "DESIGN.md section 3, C01",
    ),
    "C03": (
        "exhaustive enumeration of term families + Hypothesis-generated mixed families; linear-algebra oracle (rank and "
        "column-space equality against the complete-indicator coding, vf/refcoding.py)",
        "For every family the design matrix is built on a replicated complete factorial and compared by SVD rank with the "
        "complete-indicator coding of the written terms: columns independent, spaces equal.  All 32767 families over four "
        "two-level factors x intercept (thorough; a seeded 1/16 slice in quick) with drawn term and factor orders and "
        "column dtypes; all families of <= 2 terms over f g h x in every order; drawn families of <= 5 terms over plain, "
        "C/T/S-coded, scale/center/bs/poly/pointwise atoms with six intercept spellings.",
        "Exploration.  Numerical rank (tolerance 1e-8 relative).  Data are constructed to satisfy the premise (fully crossed, "
        "general position); cases whose single terms are not of full rank are counted and not judged.",
        "DESIGN.md section 3, C03",
    ),
    "C04": (
        "Hypothesis-generated (formula, frame) pairs; oracle = label semantics recomputed from the frame (vf/refcoding.label_value)",
        "Each column of the common, group-specific and response matrices is recomputed from its label alone (numeric "
        "piece = values, v[l] = indicator, ':' = product, e|g[l] = e on the rows of group l) on arbitrary frames with "
        "unequal level counts, str / Categorical / ordered columns, custom indexes; label count, uniqueness and order, and "
        "the level order of every categorical atom (sorted / declared) are checked.",
        "Exploration.  Only atoms whose labels have a pointwise meaning are generated; which columns exist is C03/C05.",
        "DESIGN.md section 3, C04",
    ),
    "C02": (
        "exhaustive enumeration + Hypothesis-generated operator trees, differential against an independent "
        "reference Wilkinson-Rogers term algebra (vf/refalgebra.py)",
        "Every operator tree up to the stated node bound over several atom pools (plain variables, call atoms with "
        "literal/keyword/nested arguments) is expanded by the library and by a 60-line reference algebra written "
        "from the statement; response, set of common terms and set of group terms must agree, and inside the "
        "documented language an exception is a violation.  Intercept literals and ( e | g ) items are enumerated in "
        "every documented position; deeper trees, several items and subtracted group items are drawn with "
        "Hypothesis and shrunk.  Mismatches are localised to the smallest disagreeing subtree (root-cause key).",
        "Exploration, not proof: complete only up to the enumerated bounds.  Trusted: the reference algebra, the "
        "renderers.  Terms are compared as sets of factor names; subtraction of a term spelled in another factor "
        "order may follow either reading.  One open known finding (KF-C02-1) is excluded by a structural predicate.",
        "DESIGN.md section 3, C02",
    ),
}


def main():
    checks = []
    for pid in sorted(CHECKS):
        if not os.path.exists(os.path.join(HERE, "vf", "checks", pid.lower() + ".py")):
            continue
        tech, text, note, ref = CHECKS[pid]
        checks.append(
            {
                "property_id": pid,
                "quick_cmd": f"./check {pid} quick",
                "thorough_cmd": f"./check {pid} thorough",
                "evidence_file": f"evidence/{pid}.json",
                "replay_cmd_template": f"./check {pid} --replay {{path}}",
                "engine": "vf",
                "level_claimed": {"category": "exploration", "text": text, "design_ref": ref},
                "level_note": note,
                "technique": tech,
            }
        )
    claimed = {c["property_id"] for c in checks}
    na = [
        {"property_id": pid, "reason": "check not built yet in this revision of /verif (work in progress, see DESIGN.md section 6)"}
        for pid in sorted(TITLES)
        if pid not in claimed
    ]
    manifest = {
        "version": 1,
        "setup_cmd": "sh tools/setup.sh",
        "hooks": {
            "guard": "FORMULAE_VERIF",
            "enable": "no instrumentation is compiled in: formulae is pure Python and every observation point is public "
            "API; ./check exports FORMULAE_VERIF=1 and PYTHONPATH=/repo so the working tree is what gets imported",
            "baseline_off_cmd": "cd /repo && /venv/bin/python -m pytest -ra -q -p no:cacheprovider --timeout=900 --continue-on-collection-errors",
            "source_commits": [],
            "add_only": True,
        },
        "engines": [
            {
                "name": "vf",
                "path": "vf/",
                "serves_properties": sorted(claimed),
                "kind_free_text": "property-based testing: Hypothesis strategies and state machines, exhaustive enumeration of "
                "small finite domains over 16 processes, explicit oracles (reference implementations, metamorphic "
                "relations, linear-algebra validity predicates), collect-then-shrink, JSON replay files",
            }
        ],
        "checks": checks,
        "notes": "All checks: ./check <id> quick|thorough, ./check <id> --replay <file>.  Exit 2 = harness error.  "
        "Known findings: known_findings.json.  Seeded property-breaking changes: seeded/.  See DESIGN.md.",
        "not_applicable": na,
    }
    with open(os.path.join(HERE, "MANIFEST.json"), "w", encoding="utf8") as fh:
        json.dump(manifest, fh, indent=1)
    schema_path = "/root/.vp/MANIFEST.schema.json"
    if os.path.exists(schema_path):
        try:
            import jsonschema

            jsonschema.validate(manifest, json.load(open(schema_path)))
            print("MANIFEST.json valid;", len(checks), "checks,", len(na), "not_applicable")
        except ImportError:
            print("MANIFEST.json written (jsonschema not available)")


if __name__ == "__main__":
    main()
