#!/usr/bin/env python3
"""Writes /verif/MANIFEST.json from the table below (one entry per property that has a check
module under vf/checks) and validates it against /root/.vp/MANIFEST.schema.json if available."""
import json
import os

HERE = os.path.dirname(os.path.dirname(os.path.abspath(__file__)))

TITLES = {
    "C01": "Formula grammar: precedence, associativity, nothing silently ignored",
    "C02": "Term algebra (Wilkinson-Rogers / lme4 set semantics)",
    "C03": "Common-effects matrix: full column rank, spans exactly the model space",
    "C04": "Every design-matrix column holds what its label says",
    "C05": "Group-specific blocks",
    "C06": "New data reproduces the training encoding",
    "C07": "Isolation across evaluations, designs and calls",
    "C08": "Row equivariance, irrelevant frame structure",
    "C09": "Missing-value policy",
    "C10": "Unseen levels and new groups",
    "C11": "Name resolution order and environment",
    "C12": "Call terms evaluate like the Python expression they spell",
    "C13": "Contrast codings",
    "C14": "Stateful transforms",
    "C15": "Response handling",
    "C16": "Helper functions and aliases",
    "C17": "Matrix containers",
}

# property -> (technique, level text, level note, design section)
CHECKS = {
    "C07": (
        "model-based stateful testing: Hypothesis RuleBasedStateMachine histories + exhaustive enumeration of short "
        "histories, each operation compared with the same operation in a fresh process-state (fork-server child), plus "
        "step invariants",
        "Histories of build / evaluate-common / evaluate-group / set-config / model_description / rebuild over 15 formulas "
        "x 4 frames (one with unseen levels, one with the shape of the training frame) are executed in one process; every "
        "result must equal the result of that single operation in a pristine child, and after every step the training "
        "matrices of all live designs, every earlier result array, the caller's frames (values, dtypes, index, column "
        "order, attrs), the caller's namespace, formulae.config and the TRANSFORMS registry must be unchanged.  All "
        "histories of length <= 3 over a reduced pool and all build; set-config; evaluate; set-config; evaluate histories "
        "are enumerated; the state machine draws histories of up to 30 steps.  Every description and build is also repeated "
        "in new interpreters with other string-hash seeds (determinism), and caller scenarios (a variable re-bound between "
        "two builds, a failed evaluation, a caller at module level) are compared with and without the intervening operation.",
        "Exploration.  'Fresh' means a fork-server child with the modules imported; import-time state is shared by construction.",
        "DESIGN.md section 3, C07",
    ),
    "C11": (
        "exhaustive enumeration of scope configurations + Hypothesis multi-name formulas; oracle = first defining scope in "
        "the documented order, observed through distinct sentinels",
        "For a probe name used as argument, back-quoted argument (also with a space), callee and dotted callee (1-3 "
        "attribute steps), every subset of {frame column, built-in table, caller locals, caller globals, extra_namespace} "
        "binds a distinct sentinel that also encodes the stack level; callers are synthesised with exec, nested 4 deep with "
        "separate globals; env = 0..3 and depths beyond the stack.  The design column reveals which binding was used.",
        "Exploration; exhaustive for the enumerated roles and depths.",
        "DESIGN.md section 3, C11",
    ),
    "C12": (
        "Hypothesis-generated argument expressions; differential against Python's eval on the same text, recording "
        "function for argument kinds, name normal form and identity clauses",
        "Operator trees over columns, number / string / True / False / None literals, + - * / **, unary signs, comparisons, "
        "parentheses, nested and keyword calls are rendered with drawn whitespace and placed in probe(e), I(e) and {e}; the "
        "design column must equal eval(text) (rtol 1e-12) and the recording function must see the same argument kinds, "
        "keyword names and literal types; the term name must be the single-space normal form, whitespace variants must be "
        "one term, expressions with different Python ASTs two terms.",
        "Exploration.  One open known finding (KF-C12-1: unary sign / chained ** inside calls) excluded by a structural predicate.",
        "DESIGN.md section 3, C12",
    ),
    "C14": (
        "Hypothesis-generated vectors and parameters; mathematical validity predicates with stated tolerances",
        "center / scale / standardize: mean 0, sd 1, same affine map on later data; bs: shape, non-negativity, partition of "
        "unity inside the boundary knots, training knots reused, every invalid parameter combination refused with "
        "ValueError; poly: orthonormal, orthogonal to the constant, same span as the powers, raw = exact powers, remembered "
        "coefficients unchanged by later data.  Vectors with ties, offsets up to 1e7, small n, explicit / unsorted knots, "
        "bounds inside and outside the data.",
        "Exploration.  One open known finding (KF-C14-1: inner knot equal to a boundary knot) excluded on exactly the rows at that bound.",
        "DESIGN.md section 3, C14",
    ),
    "C15": (
        "Hypothesis-generated (response form, right-hand side, frame); oracle = response matrix recomputed from the frame "
        "and exact comparison of predictor matrices across responses",
        "Numeric, categorical (str / Categorical / ordered), y[ident], y['quoted level'], absent levels, call responses, "
        "prop / p / proportion with column and constant trials are recomputed from the frame; invalid responses must be "
        "refused (sums, products, literals, group items alone or next to a term); calls of the caller's functions that "
        "return two categories (array, Series, ordered Categorical) give one indicator column per level; the common and "
        "group matrices of `R ~ rhs`, `y ~ rhs` and `rhs` alone must be identical, and a design without `~` has no response.",
        "Exploration.",
        "DESIGN.md section 3, C15",
    ),
    "C16": (
        "Hypothesis-generated helper calls on training and new frames; pointwise oracles recomputed with numpy and "
        "exact synonymy of alias pairs",
        "binary (integer, string, boolean-expression input; success present, absent, omitted), offset (column, int, float, "
        "negative and arithmetic constants, calls, the logarithm of an exposure of zero), prop (column, constant, keyword, "
        "expression and caller-variable trials, invalid counts), "
        "I(e) / {e}, and every alias pair written both ways are evaluated at training time and on new frames made of "
        "training rows and of fresh values.",
        "Exploration.",
        "DESIGN.md section 3, C16",
    ),
    "C17": (
        "Hypothesis-generated designs with histories of up to 3 derivations; invariants checked on every reachable object",
        "Slices (keys, order, contiguity, cover), indexing by term name and refusal of unknown names, equality of "
        "design_matrix / np.asarray / as_dataframe / tuple unpacking, unique labels, aligned row counts, str and repr "
        "reporting the actual shape, and non-aliasing of derived and training objects, for training objects and objects "
        "derived by evaluate_new_data (from the training object or chained) with and without new groups; levels that differ "
        "only in surrounding blanks and a level called like the constant column of the sum coding are part of every frame.",
        "Exploration.  One open known finding (KF-C17-1: a kept level called 'mean' under the full-rank sum coding gives one "
        "label twice) is excluded by a predicate that accepts exactly that pair of labels.",
        "DESIGN.md section 3, C17",
    ),
    "C05": (
        "exhaustive small effect families + Hypothesis-generated group items; oracle = block structure recomputed from labels "
        "and frame (clause A) and linear-algebra span equality with J (.) R_e (clause B)",
        "Clause A on arbitrary and factorial frames: for every group-specific term the cells (sorted levels, lexicographic "
        "cells of g1:g2), `groups`, the label order (group slowest) and every column (effect column on the rows of its cell, "
        "0 elsewhere) are recomputed from the frame; slices must cover the matrix in term order.  Clause B on replicated "
        "complete factorials: per grouping factor the stacked blocks must be independent and span the row-wise Kronecker "
        "product of complete group indicators with the complete coding of the effect family.  All effect families of <= 2 "
        "terms over f h x z x {g, g:s} x group intercept are enumerated; random items cover g+s, g/s, C(k), scale, poly.",
        "Exploration.  One open known finding (KF-C05-1, the 'reduced iff (1|g)' simplification) is excluded from clause B by "
        "a structural predicate: the column count of that rule differs from the dimension of the group-by-cell space.",
        "DESIGN.md section 3, C05",
    ),
    "C06": (
        "Hypothesis-generated (formula, frame, row multisets); round-trip oracle: evaluate_new_data(rows of D) == training rows, "
        "plus bit-identical snapshots of all remembered state",
        "Formulas over every atom kind (nested / interacting stateful transforms, C/T/S with reference, omit and levels= "
        "options, ordered categoricals, a user-registered stateful transform, group items) are built on arbitrary frames; "
        "common and group matrices are re-evaluated on single rows, reversed, repeated and drawn subsets and on subsets "
        "constructed to lack a level, the reference level, a whole group or the extreme values, with and without unused "
        "categories dropped; values, shapes, labels and the parameters of every stateful transform, levels and contrast "
        "matrices are compared.",
        "Exploration.  Aggregating non-stateful user functions are outside the statement and not generated.",
        "DESIGN.md section 3, C06",
    ),
    "C08": (
        "Hypothesis-generated (formula, frame, transformation); metamorphic oracle on complete design summaries",
        "Row permutations (index kept / reset) must permute response, common and group matrices and change nothing else "
        "(labels, slices, levels, groups, fitted parameters within 1e-9); exotic indexes (non-unique strings, floats, "
        "negative, MultiIndex), column permutations and added / removed unused columns (numeric, string, all-NaN, object, "
        "categorical) must leave everything exactly equal.",
        "Exploration.  Floating-point tolerance only for permutations (summation order).",
        "DESIGN.md section 3, C08",
    ),
    "C09": (
        "Hypothesis-generated (formula, frame with missing values, policy); differential against the library on the frame "
        "without the incomplete rows, with the set of used columns computed by the harness",
        "drop: exact equality (matrices, labels, slices, levels, transform parameters) with the design built on "
        "frame[complete rows], aligned row counts; error: raises iff a used column has a missing value; pass: row count, "
        "complete rows as under drop, NaN exactly in the columns that mention the missing numeric variable; other "
        "na_action values refused.  Variables occur bare, inside calls (keyword, nested, operators, back-quoted names).",
        "Exploration.  'pass' judged only on the sub-language the statement names.",
        "DESIGN.md section 3, C09",
    ),
    "C10": (
        "Hypothesis-generated (design, new rows, injected unseen values, mode sequence) + exhaustive configuration pool; "
        "metamorphic oracle (same rows without the unseen value, plus the zeroing / extra-slot rule)",
        "error mode must raise ValueError; warning / silent must zero exactly the columns whose label involves the variable on "
        "exactly the injected rows, warn / not warn; group terms of an affected factor get one trailing slot with the effect "
        "values of exactly the new-group rows, training slots zero there, other terms unchanged, contiguous slices, "
        "factors_with_new_levels exact; derived objects are evaluated again (chained); mode sequences of up to 4 changes; "
        "every key / value / way of setting the configuration from a pool is enumerated.",
        "Exploration.",
        "DESIGN.md section 3, C10",
    ),
    "C13": (
        "exhaustive enumeration of coding objects and levels= permutations + Hypothesis-generated coding swaps; algebraic "
        "validity predicates and span equality",
        "Every Treatment / Sum object for 1..12 levels (string and integer) and every reference / omit choice is checked for "
        "shape, rank with the constant, indicator / sum-to-zero structure and labels; every permutation of <= 4 (quick) / 5 "
        "levels is passed as levels= to C / T / S in designs with and without intercept and the resulting labels and columns "
        "compared with the coding the options describe; random families have each factor's coding swapped among ten "
        "spellings and both designs must be of full rank with equal column spaces.",
        "Exploration.  Numerical rank for interchangeability.",
        "DESIGN.md section 3, C13",
    ),
    "C01": (
        "exhaustive enumeration of token sequences + Hypothesis grammar-generated sentences, near-miss mutations and "
        "character-level strings (+ a coverage-guided atheris campaign with the same oracle inside the target in the "
        "thorough tier); differential against an independent reference tokeniser and precedence-climbing parser with "
        "context conditions (vf/refparse.py) plus metamorphic relations (fully parenthesised form, whitespace / "
        "parenthesis variants)",
        "Every string of up to 4 (quick) / 5 (thorough; 6 over a 14-symbol sub-alphabet) tokens over a 28-symbol alphabet "
        "is classified by a reference grammar written from the statement (strict and loose reading of '~ lowest, then |'; "
        "context conditions: one top-level '~', v[level] only as the whole response, no repeated keyword in a call); "
        "non-sentences must be rejected, an accepted sentence must have the reference tree (Grouping kept), the tokens the "
        "reference tokeniser finds, and the same model as its fully parenthesised form.  Hypothesis generates deep "
        "sentences of the term language and of arbitrary expression shape, renders them with drawn whitespace and "
        "redundant parentheses (base and variants must agree on accept/reject and on the model), mutates them into near "
        "misses, and draws character-level strings.  For calls whose argument is an operator expression, the column of the call "
        "must equal the column of the same call with the argument fully parenthesised under the documented precedence.",
        "Exploration.  Trusted: vf/refparse.py (cross-checked against the generator's own parenthesisation rule on every "
        "generated sentence).  Rejection of a grammatical sentence is allowed by the statement and is not judged.",
        "DESIGN.md section 3, C01",
    ),
    "C03": (
        "exhaustive enumeration of term families + Hypothesis-generated mixed families; linear-algebra oracle (rank and "
        "column-space equality against the complete-indicator coding, vf/refcoding.py)",
        "For every family the design matrix is built on a replicated complete factorial and compared by SVD rank with the "
        "complete-indicator coding of the written terms: columns independent, spaces equal.  All 32767 families over four "
        "two-level factors x intercept (thorough; a seeded 1/16 slice in quick) with drawn term and factor orders and "
        "column dtypes; all families of <= 2 terms over f g h x in every order; drawn families of <= 5 terms over plain, "
        "C/T/S-coded, scale/center/bs/poly/pointwise atoms with six intercept spellings.",
        "Exploration.  Numerical rank (tolerance 1e-8 relative).  Data are constructed to satisfy the premise (fully crossed, "
        "general position); cases whose single terms are not of full rank are counted and not judged.",
        "DESIGN.md section 3, C03",
    ),
    "C04": (
        "Hypothesis-generated (formula, frame) pairs; oracle = label semantics recomputed from the frame (vf/refcoding.label_value)",
        "Each column of the common, group-specific and response matrices is recomputed from its label alone (numeric "
        "piece = values, v[l] = indicator, ':' = product, e|g[l] = e on the rows of group l) on arbitrary frames with "
        "unequal level counts, str / Categorical / ordered columns, custom indexes; label count, uniqueness and order, and "
        "the level order of every categorical atom (sorted / declared) are checked.",
        "Exploration.  Only atoms whose labels have a pointwise meaning are generated; which columns exist is C03/C05.",
        "DESIGN.md section 3, C04",
    ),
    "C02": (
        "exhaustive enumeration + Hypothesis-generated operator trees, differential against an independent "
        "reference Wilkinson-Rogers term algebra (vf/refalgebra.py)",
        "Every operator tree up to the stated node bound over several atom pools (plain variables, call atoms with "
        "literal/keyword/nested arguments) is expanded by the library and by a 60-line reference algebra written "
        "from the statement; response, set of common terms and set of group terms must agree, and inside the "
        "documented language an exception is a violation.  Intercept literals and ( e | g ) items are enumerated in "
        "every documented position; deeper trees, several items and subtracted group items are drawn with "
        "Hypothesis and shrunk.  Mismatches are localised to the smallest disagreeing subtree (root-cause key).",
        "Exploration, not proof: complete only up to the enumerated bounds.  Trusted: the reference algebra, the "
        "renderers.  Terms are compared as sets of factor names; subtraction of a term spelled in another factor "
        "order may follow either reading.  One open known finding (KF-C02-1) is excluded by a structural predicate.",
        "DESIGN.md section 3, C02",
    ),
}


def main():
    checks = []
    for pid in sorted(CHECKS):
        if not os.path.exists(os.path.join(HERE, "vf", "checks", pid.lower() + ".py")):
            continue
        tech, text, note, ref = CHECKS[pid]
        checks.append(
            {
                "property_id": pid,
                "quick_cmd": f"./check {pid} quick",
                "thorough_cmd": f"./check {pid} thorough",
                "evidence_file": f"evidence/{pid}.json",
                "replay_cmd_template": f"./check {pid} --replay {{path}}",
                "engine": "vf",
                "level_claimed": {"category": "exploration", "text": text, "design_ref": ref},
                "level_note": note,
                "technique": tech,
            }
        )
    claimed = {c["property_id"] for c in checks}
    na = [
        {"property_id": pid, "reason": "check not built yet in this revision of /verif (work in progress, see DESIGN.md section 6)"}
        for pid in sorted(TITLES)
        if pid not in claimed
    ]
    manifest = {
        "version": 1,
        "setup_cmd": "sh tools/setup.sh",
        "hooks": {
            "guard": "FORMULAE_VERIF",
            "enable": "no instrumentation is compiled in: formulae is pure Python and every observation point is public "
            "API; ./check exports FORMULAE_VERIF=1 and PYTHONPATH=/repo so the working tree is what gets imported",
            "baseline_off_cmd": "cd /repo && /venv/bin/python -m pytest -ra -q -p no:cacheprovider --timeout=900 --continue-on-collection-errors",
            "source_commits": [],
            "add_only": True,
        },
        "engines": [
            {
                "name": "vf",
                "path": "vf/",
                "serves_properties": sorted(claimed),
                "kind_free_text": "property-based testing: Hypothesis strategies and state machines, exhaustive enumeration of "
                "small finite domains over 16 processes, explicit oracles (reference implementations, metamorphic "
                "relations, linear-algebra validity predicates), collect-then-shrink, JSON replay files",
            }
        ],
        "checks": checks,
        "notes": "All checks: ./check <id> quick|thorough, ./check <id> --replay <file>.  Exit 2 = harness error.  "
        "Known findings: known_findings.json.  Seeded property-breaking changes: seeded/.  See DESIGN.md.",
        "not_applicable": na,
    }
    with open(os.path.join(HERE, "MANIFEST.json"), "w", encoding="utf8") as fh:
        json.dump(manifest, fh, indent=1)
    schema_path = "/root/.vp/MANIFEST.schema.json"
    if os.path.exists(schema_path):
        try:
            import jsonschema

            jsonschema.validate(manifest, json.load(open(schema_path)))
            print("MANIFEST.json valid;", len(checks), "checks,", len(na), "not_applicable")
        except ImportError:
            print("MANIFEST.json written (jsonschema not available)")


if __name__ == "__main__":
    main()
