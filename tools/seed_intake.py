#!/usr/bin/env python3
"""usage: seed_intake.py <Cxx> [i ...]      (default i = 1 2)

Takes the deliverables of a seeding sub-agent from /tmp/seed_<Cxx>/ (patch{i}.diff, demo{i}.py,
notes{i}.txt), confirms them independently in a fresh scratch copy of /repo (patch applies, pinned
baseline still 135/135, demo passes without and fails with the patch), stores confirmed ones under
/verif/seeded/<Cxx>-<i>/ (patch.diff, demo.py, meta.json) and reports whether ./check <Cxx> quick
catches the change.  Nothing is ever applied to /repo itself.
"""
import json
import os
import shutil
import subprocess
import sys
import tempfile

HERE = os.path.dirname(os.path.dirname(os.path.abspath(__file__)))


def sh(cmd, cwd=None, env=None, timeout=1800):
    p = subprocess.run(cmd, shell=True, cwd=cwd, env=env, capture_output=True, text=True, timeout=timeout)
    return p.returncode, p.stdout + p.stderr


def scratch():
    d = tempfile.mkdtemp(prefix="seedchk.", dir="/tmp")
    rc, out = sh(f"git -C /repo archive HEAD | tar -x -C {d}")
    assert rc == 0, out
    return d


def main():
    prop = sys.argv[1]
    idx = sys.argv[2:] or ["1", "2"]
    src = os.environ.get("SRC_PREFIX", "/tmp/seed_") + prop
    tag = os.environ.get("TAG", "")  # e.g. "r2-" for the second round
    for i in idx:
        patch, demo, notes = (os.path.join(src, f"{n}{i}.{e}") for n, e in (("patch", "diff"), ("demo", "py"), ("notes", "txt")))
        if not (os.path.exists(patch) and os.path.exists(demo)):
            print(f"{prop}-{i}: deliverables missing")
            continue
        clean, mutated = scratch(), scratch()
        try:
            rc, out = sh(f"git apply --directory={mutated} --unsafe-paths {patch} 2>&1 || (cd {mutated} && git init -q . && git apply {patch})")
            rc2, _ = sh(f"diff -rq {clean}/formulae {mutated}/formulae")
            if rc2 == 0:
                print(f"{prop}-{i}: patch did not change anything ({out.strip()[:200]})")
                continue
            env = dict(os.environ)
            rcb, outb = sh(f"{HERE}/tools/baseline.sh {mutated}")
            base_ok = rcb == 0
            env_c = dict(env, PYTHONPATH=clean)
            env_m = dict(env, PYTHONPATH=mutated)
            shutil.copy(demo, os.path.join(clean, "demo.py"))
            shutil.copy(demo, os.path.join(mutated, "demo.py"))
            rc_clean, out_clean = sh("/venv/bin/python demo.py", cwd=clean, env=env_c, timeout=900)
            rc_mut, out_mut = sh("/venv/bin/python demo.py", cwd=mutated, env=env_m, timeout=900)
            confirmed = base_ok and rc_clean == 0 and rc_mut != 0
            verdicts = {}
            for target in [prop] + [a for a in os.environ.get("ALSO", "").split() if a]:
                rcc, outc = sh(f"VERIF_REPO={mutated} VERIF_EVIDENCE_DIR={mutated}/evidence {HERE}/check {target} {os.environ.get('TIER', 'quick')}", timeout=3600)
                viol = [l for l in outc.splitlines() if l.startswith("VIOLATION")]
                verdicts[target] = "KILLED" if (rcc == 1 and viol) else ("SURVIVED" if rcc == 0 else f"HARNESS-ERROR rc={rcc}")
                detail = [l for l in outc.splitlines() if l.strip().startswith("bucket")][:2]
                print(f"{prop}-{tag}{i} vs check {target}: {verdicts[target]}  {' | '.join(d.strip()[:200] for d in detail)}")
            print(f"{prop}-{tag}{i}: baseline={'green' if base_ok else 'RED'} demo clean rc={rc_clean} mutated rc={rc_mut} -> {'CONFIRMED' if confirmed else 'NOT CONFIRMED'}")
            if not confirmed:
                print("   clean:", out_clean.strip()[-300:])
                print("   mutated:", out_mut.strip()[-300:])
                print("   baseline:", outb.strip()[-200:])
                continue
            dest = os.path.join(HERE, "seeded", f"{prop}-{tag}{i}")
            os.makedirs(dest, exist_ok=True)
            shutil.copy(patch, os.path.join(dest, "patch.diff"))
            shutil.copy(demo, os.path.join(dest, "demo.py"))
            meta = {
                "property": prop,
                "origin": "written by a sub-agent that was given only the property text and a scratch worktree of /repo",
                "needs_to_manifest": open(notes).read().strip() if os.path.exists(notes) else "",
                "confirmed": {
                    "how": "tools/seed_intake.py: fresh scratch copies of /repo HEAD under /tmp; pinned baseline on the patched copy; demo.py on both copies",
                    "baseline_with_patch": "135/135 stable tests pass",
                    "demo_without_patch_rc": rc_clean,
                    "demo_with_patch_rc": rc_mut,
                    "demo_with_patch_output_tail": out_mut.strip()[-400:],
                },
                "repo_commit": sh("git -C /repo rev-parse --short HEAD")[1].strip(),
                "checks": verdicts,
            }
            with open(os.path.join(dest, "meta.json"), "w") as fh:
                json.dump(meta, fh, indent=1)
        finally:
            shutil.rmtree(clean, ignore_errors=True)
            shutil.rmtree(mutated, ignore_errors=True)


if __name__ == "__main__":
    main()
