#!/bin/sh
# usage: tools/mutation_check.sh <patch.diff> <Cxx> [tier]
# Applies the patch to a scratch copy of /repo (outside /repo and /verif), checks that the pinned
# baseline still passes there, runs ./check <Cxx> against the copy and reports whether the check
# caught it (exit 1 + VIOLATION).  The copy is removed afterwards.
PATCH="$(realpath "$1")"; PROP="$2"; TIER="${3:-quick}"
HERE="$(cd "$(dirname "$0")/.." && pwd)"
TMP="$(mktemp -d /tmp/mut.XXXXXX)"
trap 'rm -rf "$TMP"' EXIT
git -C /repo archive HEAD | tar -x -C "$TMP" || exit 2
( cd "$TMP" && git init -q . 2>/dev/null; git -C "$TMP" apply "$PATCH" ) || { echo "MUTANT $PATCH: patch does not apply"; exit 2; }
if "$HERE/tools/baseline.sh" "$TMP" >/dev/null 2>&1; then BASE=green; else BASE=RED; fi
OUT="$(VERIF_REPO="$TMP" VERIF_EVIDENCE_DIR="$TMP/evidence" timeout 1800 "$HERE/check" "$PROP" "$TIER" 2>&1)"; RC=$?
V="$(printf '%s\n' "$OUT" | grep -c '^VIOLATION')"
if [ "$RC" = 1 ] && [ "$V" -gt 0 ]; then VERDICT=KILLED; elif [ "$RC" = 0 ]; then VERDICT=SURVIVED; else VERDICT="HARNESS-ERROR(rc=$RC)"; fi
echo "MUTANT $(basename "$(dirname "$PATCH")")/$(basename "$PATCH") on $PROP $TIER: $VERDICT baseline=$BASE violations=$V"
[ -n "$VERBOSE" ] && printf '%s\n' "$OUT" | tail -40
[ "$VERDICT" = KILLED ]
