#!/bin/sh
# Offline setup after a fresh restore: hypothesis into /venv (no-op if present), atheris into .deps.
cd "$(dirname "$0")/.." || exit 1
WH=/opt/veriftools/wheels
/venv/bin/python -c "import hypothesis" 2>/dev/null || /venv/bin/pip install -q --no-index --find-links "$WH" hypothesis || exit 1
if ! PYTHONPATH=.deps /venv/bin/python -c "import atheris" 2>/dev/null; then
  /venv/bin/pip install -q --no-index --find-links "$WH" --target .deps atheris 2>/dev/null || echo "note: atheris not installed (only the optional C01 fuzz campaign needs it)"
fi
/venv/bin/python -c "import hypothesis, numpy, pandas, scipy; print('setup ok: hypothesis', hypothesis.__version__)"
