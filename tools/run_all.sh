#!/bin/sh
# usage: tools/run_all.sh [tier] [seed]  -- runs every registered check, prints one line per check
cd "$(dirname "$0")/.." || exit 2
TIER="${1:-quick}"; SEED="${2:-1}"; WORST=0
for p in $(python3 -c "import json;print(' '.join(c['property_id'] for c in json.load(open('MANIFEST.json'))['checks']))"); do
  S=$(date +%s); OUT=$(VERIF_SEED=$SEED ./check $p $TIER 2>&1); RC=$?; E=$(date +%s)
  echo "$p rc=$RC $((E-S))s $(echo "$OUT" | tail -1)"
  if [ $RC -ne 0 ]; then echo "$OUT" | grep -E "VIOLATION|HARNESS|bucket" | head -5; [ $RC -gt $WORST ] && WORST=$RC; fi
done
exit $WORST
