#!/usr/bin/env python3
"""usage: mkmutant.py <Cxx> <name> <file-relative-to-repo> <old> <new>   (exact, single replacement)
Writes mutants/<Cxx>/<name>.diff (a git-style patch against /repo's working tree)."""
import difflib, os, sys
prop, name, rel, old, new = sys.argv[1:6]
src = open(os.path.join("/repo", rel)).read()
if src.count(old) != 1:
    sys.exit(f"pattern occurs {src.count(old)} times in {rel}")
dst = src.replace(old, new)
diff = difflib.unified_diff(src.splitlines(True), dst.splitlines(True), "a/" + rel, "b/" + rel)
out = os.path.join(os.path.dirname(os.path.dirname(os.path.abspath(__file__))), "mutants", prop)
os.makedirs(out, exist_ok=True)
open(os.path.join(out, name + ".diff"), "w").write("".join(diff))
print("wrote", os.path.join(out, name + ".diff"))
