#!/bin/sh
# Runs every patch under mutants/<Cxx>/ and seeded/<Cxx>-<i>/patch.diff against its check (quick tier), 6 at a time.
# usage: tools/mutants_all.sh [Cxx ...]   (default: all properties)
cd "$(dirname "$0")/.." || exit 2
LIST=$(mktemp)
for d in mutants/C*/; do p=$(basename "$d"); for m in "$d"*.diff; do echo "$m $p"; done; done > "$LIST"
for d in seeded/C*/; do p=$(basename "$d" | cut -d- -f1); echo "${d}patch.diff $p"; done >> "$LIST"
if [ $# -gt 0 ]; then grep -E " ($(echo "$*" | tr ' ' '|'))\$" "$LIST" > "$LIST.f"; mv "$LIST.f" "$LIST"; fi
rm -f "$LIST.keep"; cp "$LIST" "$LIST.keep"
xargs -P ${PAR:-6} -L 1 sh -c 'tools/mutation_check.sh "$0" "$1" 2>&1 | tail -1' < "$LIST.keep" | sort > /tmp/mutants_all.log
rm -f "$LIST" "$LIST.keep"
grep -c KILLED /tmp/mutants_all.log
grep -v KILLED /tmp/mutants_all.log
