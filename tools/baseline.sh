#!/bin/sh
# Runs the repository's pinned baseline (command from /root/.vp/BASELINE.json) against a tree and
# reports whether every stable-pass test passes.  usage: tools/baseline.sh [tree]   (default /repo)
TREE="${1:-/repo}"
OUT="$(mktemp /tmp/baseline.XXXXXX.xml)"
cd "$TREE" && PYTHONPATH="$TREE" timeout 300 /venv/bin/python -m pytest -ra -q -p no:cacheprovider --timeout=60 --continue-on-collection-errors --junitxml="$OUT" >/dev/null 2>&1
/venv/bin/python - "$OUT" <<'PY'
import json, sys, xml.etree.ElementTree as ET
base = json.load(open("/root/.vp/BASELINE.json"))
want = set(base["stable_pass"])
ok = set()
for tc in ET.parse(sys.argv[1]).getroot().iter("testcase"):
    name = tc.get("classname") + "::" + tc.get("name").split("[")[0]
    bad = any(ch.tag in ("failure", "error", "skipped") for ch in tc)
    if bad:
        ok.discard(name); want_bad = name
        if name in want: print("FAILED:", name)
        ok.add("!" + name)
    elif "!" + name not in ok:
        ok.add(name)
missing = sorted(n for n in want if n not in ok or "!" + n in ok)
print(f"baseline: {len(want) - len(missing)}/{len(want)} stable tests pass")
sys.exit(1 if missing else 0)
PY
RC=$?
rm -f "$OUT"
exit $RC
