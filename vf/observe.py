"""Observation of the library through its public API, shared by several checks."""


def impl_model(formula):
    """(response name | None, [common terms as tuples of factor names, () = intercept], [(effect, factor)])"""
    from formulae import model_description

    m = model_description(formula)
    return describe_model(m)


def describe_model(m):
    common = []
    for t in m.common_terms:
        if type(t).__name__ == "Intercept":
            common.append(())
        elif type(t).__name__ == "NegatedIntercept":
            common.append(("<NegatedIntercept>",))
        else:
            common.append(tuple(str(c.name) for c in t.components))
    group = []
    for t in m.group_terms:
        e = () if type(t.expr).__name__ == "Intercept" else tuple(str(c.name) for c in t.expr.components)
        group.append((e, tuple(str(c.name) for c in t.factor.components)))
    resp = None if m.response is None else m.response.term.name
    return resp, common, group
