"""Observation of the library through its public API, shared by several checks."""


def impl_model(formula):
    """(response name | None, [common terms as tuples of factor names, () = intercept], [(effect, factor)])"""
    from formulae import model_description

    m = model_description(formula)
    return describe_model(m)


def describe_model(m):
    common = []
    for t in m.common_terms:
        if type(t).__name__ == "Intercept":
            common.append(())
        elif type(t).__name__ == "NegatedIntercept":
            common.append(("<NegatedIntercept>",))
        else:
            common.append(tuple(str(c.name) for c in t.components))
    group = []
    for t in m.group_terms:
        e = () if type(t.expr).__name__ == "Intercept" else tuple(str(c.name) for c in t.expr.components)
        group.append((e, tuple(str(c.name) for c in t.factor.components)))
    resp = None if m.response is None else m.response.term.name
    return resp, common, group


# ---- whole-design summaries (C07, C08, C09, C15, C17) ---------------------------------------------
def _mat(m):
    import numpy as np

    if m is None:
        return None
    a = np.asarray(m.design_matrix, dtype=float)
    return a[:, None] if a.ndim == 1 else a


def _params(dm):
    """Remembered numeric state of every stateful transform, as flat float lists."""
    import numpy as np
    from vf import rich

    out = []
    for obj in rich.stateful_objects(dm):
        vals = []
        for k, v in sorted(vars(obj).items()):
            if isinstance(v, dict):
                for kk in sorted(v):
                    vals.append(float(v[kk]))
            elif isinstance(v, np.ndarray):
                vals.extend(float(t) for t in v.ravel())
            elif isinstance(v, (int, float, np.integer, np.floating)) and not isinstance(v, bool):
                vals.append(float(v))
        out.append((type(obj).__name__, vals))
    return out


def design_summary(dm):
    s = {"response": _mat(dm.response), "common": _mat(dm.common), "group": _mat(dm.group)}
    s["response_meta"] = None if dm.response is None else (dm.response.name, dm.response.kind, None if dm.response.levels is None else list(dm.response.levels))
    s["common_terms"] = None if dm.common is None else list(dm.common.terms)
    s["common_labels"] = None if dm.common is None else [l for t in dm.common.terms.values() for l in t.labels]
    s["common_slices"] = None if dm.common is None else [(k, v.start, v.stop) for k, v in dm.common.slices.items()]
    s["group_terms"] = None if dm.group is None else list(dm.group.terms)
    s["group_labels"] = None if dm.group is None else [l for t in dm.group.terms.values() for l in t.labels]
    s["group_slices"] = None if dm.group is None else [(k, v.start, v.stop) for k, v in dm.group.slices.items()]
    s["groups"] = None if dm.group is None else [list(t.groups) for t in dm.group.terms.values()]
    s["params"] = _params(dm)
    return s


def compare_summaries(a, b, perm=None, exact=False, rtol=1e-9, atol=1e-9):
    """Differences between two summaries; `perm`: b's rows are a's rows taken in this order."""
    import numpy as np

    diffs = []
    for key in ("response_meta", "common_terms", "common_labels", "common_slices", "group_terms", "group_labels", "group_slices", "groups"):
        if a[key] != b[key]:
            diffs.append((key, f"{a[key]} vs {b[key]}"))
    for key in ("response", "common", "group"):
        ma, mb = a[key], b[key]
        if (ma is None) != (mb is None):
            diffs.append((key, "present in one design only"))
            continue
        if ma is None:
            continue
        want = ma if perm is None else ma[perm]
        if want.shape != mb.shape:
            diffs.append((key, f"shape {want.shape} vs {mb.shape}"))
        elif exact:
            if not np.array_equal(want, mb, equal_nan=True):
                diffs.append((key, "values differ (exact comparison)"))
        else:
            # floating-point noise (a permuted sum differs in the last bits, and centring data with a large offset
            # amplifies that in products): tolerance relative to the magnitude of the column, not of the entry
            scale = np.maximum(1.0, np.nanmax(np.abs(np.where(np.isfinite(want), want, 0.0)), axis=0)) if want.size else 1.0
            ok = np.isclose(want, mb, rtol=0, atol=0, equal_nan=True) | (np.abs(want - mb) <= rtol * scale)
            if not ok.all():
                diffs.append((key, "values differ"))
    pa, pb = a["params"], b["params"]
    if [p[0] for p in pa] != [p[0] for p in pb] or [len(p[1]) for p in pa] != [len(p[1]) for p in pb]:
        diffs.append(("params", "different transform objects"))
    else:
        for (n1, v1), (_, v2) in zip(pa, pb):
            ok = np.array_equal(v1, v2, equal_nan=True) if exact else np.allclose(v1, v2, rtol=1e-9, atol=1e-9, equal_nan=True)
            if not ok:
                diffs.append(("params", f"{n1}: {v1[:4]} vs {v2[:4]}"))
    return diffs
