"""Data frames for the matrix-level checks.

A frame is described by a JSON-able *spec* (so that it can be written to a replay file) and built
with `build(spec)`:

    {"cols": [{"name": "f", "kind": "str", "values": [...]},
              {"name": "h", "kind": "cat", "values": [...], "categories": [...], "ordered": true},
              {"name": "x", "kind": "float", "values": [...]}, {"name": "k", "kind": "int", ...}],
     "index": [...] | null}

No RNG is used anywhere: numeric columns are Weyl sequences (irrational-step lattices), which puts
them in general position; every choice that varies between cases is a drawn integer.
"""
import itertools
import math

import numpy as np
import pandas as pd
from hypothesis import strategies as st

PHI = (math.sqrt(5) - 1) / 2
STEPS = [PHI, math.sqrt(2) - 1, math.sqrt(3) - 1, math.sqrt(7) - 2, math.pi - 3, math.e - 2]


def weyl(n, column, seed=0, lo=-1.5, hi=1.5):
    """n distinct, well spread values in (lo, hi): frac((i + 1 + seed) * step_column)."""
    step = STEPS[column % len(STEPS)] / (1 + column // len(STEPS))
    v = np.array([((i + 1 + 7 * seed + 3 * column) * step) % 1.0 for i in range(n)])
    return lo + (hi - lo) * v


def build(spec):
    data = {}
    for c in spec["cols"]:
        k = c["kind"]
        if k == "str":
            data[c["name"]] = pd.Series([None if v is None else str(v) for v in c["values"]], dtype=object)
        elif k == "cat":
            data[c["name"]] = pd.Categorical(c["values"], categories=c.get("categories"), ordered=bool(c.get("ordered")))
        elif k == "int":
            if any(v is None for v in c["values"]):
                data[c["name"]] = pd.Series([np.nan if v is None else v for v in c["values"]], dtype=float)
            else:
                data[c["name"]] = pd.Series(c["values"], dtype="int64")
        elif k == "int8":
            data[c["name"]] = pd.Series(c["values"], dtype="int8")
        elif k == "uint16":
            data[c["name"]] = pd.Series(c["values"], dtype="uint16")
        elif k == "Int64":  # pandas' nullable integers: a missing value is pd.NA and the column stays integer
            data[c["name"]] = pd.Series(pd.array([pd.NA if v is None else int(v) for v in c["values"]], dtype="Int64"))
        elif k == "float":
            data[c["name"]] = pd.Series([np.nan if v is None else v for v in c["values"]], dtype=float)
        elif k == "bool":
            data[c["name"]] = pd.Series(c["values"], dtype=bool)
        elif k == "object":
            data[c["name"]] = pd.Series(c["values"], dtype=object)
        else:
            raise ValueError(k)
    df = pd.DataFrame(data, columns=[c["name"] for c in spec["cols"]])
    if spec.get("duplicate_unused_label"):
        # two columns that carry the same label (what pd.concat(axis=1) of two tables gives); no formula names them
        n_ = len(df)
        extra = pd.DataFrame({"a_": [float(i) for i in range(n_)], "b_": ["u%d" % (i % 2) for i in range(n_)]})
        extra.columns = ["remark", "remark"]
        df = pd.concat([df, extra], axis=1)
    idx = spec.get("index")
    if idx is not None:
        if idx and isinstance(idx[0], list):
            df.index = pd.MultiIndex.from_tuples([tuple(i) for i in idx])
        else:
            df.index = pd.Index(idx)
    names = spec.get("index_names")
    if names:  # a named index (what set_index / groupby leave behind); the names are labels, not variables
        if idx is None:
            df.index = pd.RangeIndex(len(df))
        df.index.names = list(names)[: df.index.nlevels] if df.index.nlevels > 1 else [names[0]]
    return df


def take(spec, rows):
    """Spec of the frame made of the given row positions (repetition allowed)."""
    out = {"cols": [], "index": None}
    for c in spec["cols"]:
        c2 = dict(c)
        c2["values"] = [c["values"][i] for i in rows]
        out["cols"].append(c2)
    if spec.get("index") is not None:
        out["index"] = [spec["index"][i] for i in rows]
    return out


def column(spec, name):
    for c in spec["cols"]:
        if c["name"] == name:
            return c
    raise KeyError(name)


def nrows(spec):
    return len(spec["cols"][0]["values"])


LEVEL_NAMES = {
    # deliberately not in alphabetical order of appearance
    "f": ["b", "a", "d", "c", "e"],
    "g": ["g3", "g1", "g2", "g5", "g4"],
    "h": ["lo", "mid", "hi", "top", "max"],
    "s": ["s2", "s1", "s3", "s4", "s5"],
    "u": ["q", "p", "r", "t", "w"],
}


INT_LEVELS = [10, 2, -3, 25, 7]  # numeric order differs from text order


def int_level(i):
    """i-th (0-based) level value of an integer-coded factor."""
    return INT_LEVELS[i] if i < len(INT_LEVELS) else 30 + i


def level_names(var, n):
    if var in LEVEL_NAMES:
        return LEVEL_NAMES[var][:n]
    return [f"{var}{i}" for i in range(n)]


def factorial_spec(levels, reps, seed=0, catkinds=None, numerics=("x", "z", "w"), int_coded=("k",), shuffle=True):
    """Replicated complete factorial over the categorical variables in `levels` (name -> #levels).

    catkinds: name -> "str" | "cat" | "ordcat" (declared order = LEVEL_NAMES order, not alphabetical).
    Variables in `int_coded` hold integers 1..n (used through C(k)).  Numeric columns are Weyl
    sequences; rows are deterministically shuffled so that cells are not contiguous.
    """
    catkinds = catkinds or {}
    names = list(levels)
    cells = list(itertools.product(*[range(levels[n]) for n in names])) * reps
    n = len(cells)
    order = list(range(n))
    if shuffle:
        order.sort(key=lambda i: ((i + 1) * (2 * seed + 7) * PHI) % 1.0)
    cells = [cells[i] for i in order]
    cols = []
    for j, name in enumerate(names):
        if name in int_coded:
            cols.append({"name": name, "kind": "int", "values": [int_level(c[j]) for c in cells]})
            continue
        lv = level_names(name, levels[name])
        vals = [lv[c[j]] for c in cells]
        kind = catkinds.get(name, "str")
        if kind == "str":
            cols.append({"name": name, "kind": "str", "values": vals})
        elif kind == "cat":
            # unordered Categorical whose declared categories are deliberately not in sorted order and, for odd seeds,
            # include a category that never occurs (levels of unordered data are the observed values)
            cols.append({"name": name, "kind": "cat", "values": vals, "categories": list(lv) + (["never"] if seed % 2 else []), "ordered": False})
        else:
            cols.append({"name": name, "kind": "cat", "values": vals, "categories": lv, "ordered": True})
    for j, name in enumerate(numerics):
        vals = weyl(n, j, seed)
        if name == "w" and seed % 3 == 1:
            # an integer-dtype numeric column (distinct integers in the order of the Weyl values)
            ranks = np.argsort(np.argsort(vals))
            cols.append({"name": name, "kind": "int", "values": [int(r) - n // 2 for r in ranks]})
            continue
        cols.append({"name": name, "kind": "float", "values": [round(float(v), 6) for v in vals]})
    cols.append({"name": "y", "kind": "float", "values": [round(float(v), 6) for v in weyl(n, 5, seed + 1, -3, 3)]})
    return {"cols": cols, "index": None}


# ---- random (non-factorial) frames -------------------------------------------------------------
@st.composite
def random_frame(draw, cat_vars=("f", "g", "h"), num_vars=("x", "z"), int_vars=("k",), min_rows=4, max_rows=40,
                 max_levels=4, with_index=True, extra_unused=True, pos_vars=(), num_styles=("general", "general", "ties", "offset", "smallint", "intdtype", "symmetric"),
                 min_levels=2, intcat_vars=(), bool_vars=()):
    """Arbitrary frame: unequal level counts, every declared level of a variable occurs at least once,
    str / Categorical / ordered Categorical columns, optional exotic index, optional unused columns."""
    n = draw(st.integers(max(min_rows, max_levels + 1), max_rows))
    seed = draw(st.integers(0, 50))
    spots = sorted(range(n), key=lambda i: ((i + 1) * (seed + 3) * PHI) % 1.0)  # distinct row positions
    cols = []
    for name in cat_vars:
        nl = draw(st.integers(min_levels, max_levels))
        lv = level_names(name, nl)
        codes = draw(st.lists(st.integers(0, nl - 1), min_size=n, max_size=n))
        for i in range(nl):  # make every level occur (unequal counts stay)
            codes[spots[i]] = i
        present = set(codes)
        vals = [lv[c] for c in codes]
        lv_present = [l for i, l in enumerate(lv) if i in present]
        kind = draw(st.sampled_from(["str", "str", "cat", "ordcat"]))
        if kind == "str":
            cols.append({"name": name, "kind": "str", "values": vals})
        elif kind == "cat":
            cols.append({"name": name, "kind": "cat", "values": vals, "categories": lv_present[::-1] if seed % 2 else lv_present, "ordered": False})
        else:
            cols.append({"name": name, "kind": "cat", "values": vals, "categories": lv_present, "ordered": True})
    for name in intcat_vars:  # pandas Categorical whose categories are integers (a plain categorical variable with non-string levels)
        nl = draw(st.integers(2, max_levels))
        codes = draw(st.lists(st.integers(0, nl - 1), min_size=n, max_size=n))
        for i in range(nl):
            codes[spots[(i + 2) % n]] = i
        lv = [int_level(i) for i in range(nl)]
        cols.append({"name": name, "kind": "cat", "values": [lv[c] for c in codes], "categories": sorted(lv) if seed % 2 else lv, "ordered": bool(seed % 3 == 0)})
    for name in int_vars:
        nl = draw(st.integers(2, max_levels))
        codes = draw(st.lists(st.integers(0, nl - 1), min_size=n, max_size=n))
        for i in range(nl):
            codes[spots[-1 - i]] = i
        cols.append({"name": name, "kind": "int", "values": [int_level(c) for c in codes]})
    for j, name in enumerate(num_vars):
        style = draw(st.sampled_from(list(num_styles)))
        v = weyl(n, j, seed)
        if style == "ties":
            v = np.round(v * 2) / 2
        elif style == "offset":
            v = v + 10 ** draw(st.integers(2, 5))
        elif style == "smallint":
            v = np.round(v * 3)
        elif style == "uint":  # counts held in an unsigned integer type (differences of neighbours wrap around)
            cols.append({"name": name, "kind": "uint16", "values": [int(t) for t in np.argsort(np.argsort(v)) * 3 + 1]})
            continue
        elif style in ("intdtype", "symmetric"):
            ranks = np.argsort(np.argsort(v))  # distinct integers, symmetric around zero
            v = (ranks - (n - 1) / 2.0) * (2 if n % 2 == 0 else 1)
            if style == "intdtype":
                cols.append({"name": name, "kind": "int", "values": [int(t) for t in v]})
                continue
        cols.append({"name": name, "kind": "float", "values": [round(float(t), 6) for t in v]})
    for j, name in enumerate(pos_vars):
        cols.append({"name": name, "kind": "float", "values": [round(float(t), 6) for t in weyl(n, 3 + j, seed, 0.5, 6.0)]})
    for j, name in enumerate(bool_vars):  # a boolean column (numeric when bare, two levels through C())
        vals = [bool(t > 0.2) for t in weyl(n, 7 + j, seed)]
        vals[spots[0]], vals[spots[1]] = True, False
        cols.append({"name": name, "kind": "bool", "values": vals})
    cols.append({"name": "y", "kind": "float", "values": [round(float(t), 6) for t in weyl(n, 5, seed + 1, -3, 3)]})
    if extra_unused and draw(st.booleans()):
        cols.append({"name": "unused_num", "kind": "float", "values": [float(i) for i in range(n)]})
        cols.append({"name": "unused_str", "kind": "str", "values": ["u%d" % (i % 3) for i in range(n)]})
    order = draw(st.permutations(range(len(cols))))
    cols = [cols[i] for i in order]
    index = None
    if with_index:
        ik = draw(st.sampled_from(["default", "default", "shuffled", "strings", "floats", "multi", "descending"]))
        if ik == "shuffled":
            index = list(draw(st.permutations(range(n))))
        elif ik == "strings":
            index = ["r%d" % (i % 3) for i in range(n)]
        elif ik == "floats":
            index = [float(i) / 2 for i in range(n)]
        elif ik == "multi":
            index = [["b" if i % 2 else "a", i // 3] for i in range(n)]  # a MultiIndex with repeated entries
        elif ik == "descending":
            index = [n - i for i in range(n)]
    return {"cols": cols, "index": index}
