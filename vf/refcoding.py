"""Reference codings and the linear-algebra oracles (span / rank), written from the statements
of C03, C04, C05 and C13.  No use of formulae's redundancy analysis.
"""
import re

import numpy as np

# ---- atoms ---------------------------------------------------------------------------------------
# name as written in a formula -> (base variable, role).  Numeric atoms get their reference
# columns from `numeric_columns`; categorical atoms are coded by complete indicators of the base.
CAT_ATOMS = {
    "f": "f", "g": "g", "h": "h", "s": "s", "u": "u", "k": "k",
    "C(k)": "k", "C(f)": "f", "T(f)": "f", "S(g)": "g", "C(h, Sum)": "h", "S(f)": "f", "T(g)": "g",
    "C(g, Treatment)": "g", "C(k, Sum)": "k", "T(h)": "h", "S(h)": "h", "C(s)": "s", "T(s)": "s",
}
NUM_ATOMS = {
    "x": "x", "z": "z", "w": "w", "y": "y",
    "scale(x)": "x", "center(z)": "z", "standardize(w)": "w", "center(x)": "x", "scale(z)": "z",
    "bs(z, df=3)": "z", "poly(x, 2)": "x", "bs(x, df=4)": "x", "poly(z, 3)": "z", "poly(z, 2)": "z",
    "np.exp(x)": "x", "I(z ** 2)": "z", "{w + 1}": "w",
}
NUM_WIDTH = {"bs(z, df=3)": 3, "poly(x, 2)": 2, "bs(x, df=4)": 4, "poly(z, 3)": 3, "poly(z, 2)": 2}


_CODED = re.compile(r"^[CTS]\((\w+)\s*[,)]")


def atom_base(a):
    if a in CAT_ATOMS:
        return CAT_ATOMS[a]
    if a in NUM_ATOMS:
        return NUM_ATOMS[a]
    m = _CODED.match(a)  # C(v, ...), T(v, ...), S(v, ...) with any options
    if m:
        return m.group(1)
    raise KeyError(a)


def is_cat(a):
    return a in CAT_ATOMS or (a not in NUM_ATOMS and bool(_CODED.match(a)))


def atom_label_name(a):
    """The name the library gives the component (source text normalised)."""
    return "I(w + 1)" if a == "{w + 1}" else a


def numeric_columns(a, frame):
    """Reference columns of a numeric atom on `frame`, computed independently of the term machinery
    (bs / poly: by calling the transform class directly - their own contracts are C14's business)."""
    v = frame[NUM_ATOMS[a]].to_numpy(dtype=float)
    if a in ("x", "z", "w", "y"):
        return v[:, None]
    if a.startswith("center("):
        return (v - v.mean())[:, None]
    if a.startswith("scale(") or a.startswith("standardize("):
        return ((v - v.mean()) / v.std())[:, None]
    if a == "np.exp(x)":
        return np.exp(v)[:, None]
    if a == "I(z ** 2)":
        return (v ** 2)[:, None]
    if a == "{w + 1}":
        return (v + 1)[:, None]
    from formulae.transforms import BSpline, Polynomial

    if a.startswith("bs("):
        df = int(re.search(r"df=(\d+)", a).group(1))
        return np.asarray(BSpline()(v, df=df), dtype=float)
    if a.startswith("poly("):
        d = int(re.search(r", (\d+)\)", a).group(1))
        return np.asarray(Polynomial()(v, d), dtype=float)
    raise KeyError(a)


def indicators(values, levels=None):
    values = np.asarray(values, dtype=object)
    if levels is None:
        levels = sorted(set(values.tolist()))
    return np.column_stack([(values == l).astype(float) for l in levels]), list(levels)


def khatri_rao_rows(a, b):
    """Row-wise Kronecker product, columns of `a` slowest."""
    return (a[:, :, None] * b[:, None, :]).reshape(a.shape[0], a.shape[1] * b.shape[1])


def term_complete(term, frame):
    """Complete-indicator coding of a term (tuple of atoms): every factor by all its level
    indicators, times the numeric factors."""
    m = np.ones((len(frame), 1))
    for a in term:
        if is_cat(a):
            part, _ = indicators(frame[atom_base(a)].to_numpy())
        else:
            part = numeric_columns(a, frame)
        m = khatri_rao_rows(m, part)
    return m


def family_complete(terms, intercept, frame):
    cols = [np.ones((len(frame), 1))] if intercept else []
    cols += [term_complete(t, frame) for t in terms]
    if not cols:
        return np.zeros((len(frame), 0))
    return np.column_stack(cols)


def model_dim(terms, intercept, frame, width=None):
    """Dimension of the space spanned by the complete-indicator coding of a family of terms on fully crossed data in
    general position, computed combinatorially: terms are grouped by their numeric part; within a group the
    categorical parts span the down-closure of their factor sets, each subset S contributing prod(n_i - 1)."""
    import itertools

    by_num = {}
    for t in terms:
        cats = frozenset(a for a in t if is_cat(a))
        nums = frozenset(a for a in t if not is_cat(a))
        by_num.setdefault(nums, set()).add(cats)
    if intercept:
        by_num.setdefault(frozenset(), set()).add(frozenset())
    dim = 0
    for nums, catsets in by_num.items():
        w = 1
        for a in nums:
            w *= (width(a) if width else NUM_WIDTH.get(a, 1))
        closed = set()
        for c in catsets:
            for k in range(len(c) + 1):
                for sub in itertools.combinations(sorted(c), k):
                    closed.add(frozenset(sub))
        for sub in closed:
            d = 1
            for a in sub:
                d *= len(set(frame[atom_base(a)].tolist())) - 1
            dim += w * d
    return dim


# ---- rank / span ---------------------------------------------------------------------------------
def rank(m, tol=1e-8):
    m = np.asarray(m, dtype=float)
    if m.size == 0:
        return 0
    norms = np.sqrt((m * m).sum(axis=0))
    keep = norms > 0
    if not keep.any():
        return 0
    s = np.linalg.svd(m[:, keep] / norms[keep], compute_uv=False)
    return int((s > tol * s[0]).sum())


def span_report(x, r):
    """(independent, same_space, rx, rr, rxr)"""
    x = np.asarray(x, dtype=float)
    r = np.asarray(r, dtype=float)
    rx, rr = rank(x), rank(r)
    rxr = rank(np.column_stack([x, r])) if x.size and r.size else max(rx, rr)
    return rx == x.shape[1], (rx == rr == rxr), rx, rr, rxr


# ---- label semantics (C04) -----------------------------------------------------------------------
_PIECE = re.compile(r"^(?P<name>.+?)(\[(?P<level>[^\[\]]*)\])?$")


def split_top(label, sep=":"):
    """Split on `sep` outside parentheses/brackets."""
    parts, depth, cur = [], 0, ""
    for ch in label:
        if ch in "([{":
            depth += 1
        elif ch in ")]}":
            depth -= 1
        if ch == sep and depth == 0:
            parts.append(cur)
            cur = ""
        else:
            cur += ch
    parts.append(cur)
    return parts


def piece_value(piece, frame, atoms):
    """Column denoted by one label piece: `atom` (numeric values), `atom[i]` (i-th column of a
    multi-column numeric atom) or `atom[level]` (indicator of a categorical atom)."""
    for a in sorted(atoms, key=len, reverse=True):
        name = atom_label_name(a)
        if piece == name and not is_cat(a):
            cols = numeric_columns(a, frame)
            if cols.shape[1] != 1:
                raise KeyError(f"label {piece!r} names a {cols.shape[1]}-column atom without a column index")
            return cols[:, 0]
        if piece.startswith(name + "[") and piece.endswith("]"):
            level = piece[len(name) + 1 : -1]
            if is_cat(a):
                col = frame[atom_base(a)]
                ind = np.array([str(v) == level for v in col.tolist()], dtype=float)
                if a.startswith("S(") or ", Sum" in a:
                    # sum-to-zero coding: the column of a level is +1 on its rows and -1 on the rows of the omitted level
                    # (the last one unless named); `mean` is the constant of the full-rank coding
                    if level == "mean":
                        return np.ones(len(frame))
                    m = re.search(r"(?:S\(\w+\s*,\s*|Sum\()\s*['\"]([^'\"]+)['\"]", a)
                    if m:
                        omitted = m.group(1)
                    else:
                        dtype = col.dtype
                        lv = list(dtype.categories) if hasattr(dtype, "ordered") and dtype.ordered else sorted(set(col.tolist()))
                        omitted = str(lv[-1])
                    return ind - np.array([str(v) == omitted for v in col.tolist()], dtype=float)
                return ind
            cols = numeric_columns(a, frame)
            return cols[:, int(level)]
    raise KeyError(f"label piece {piece!r} names no atom of the formula")


def label_value(label, frame, atoms):
    """The column a design-matrix label denotes (statement of C04)."""
    n = len(frame)
    if "|" in label:
        e, g = label.split("|", 1)
        ev = np.ones(n) if e == "1" else label_value(e, frame, atoms)
        ind = np.ones(n)
        for p in split_top(g):
            ind = ind * piece_value(p, frame, atoms)
        return ev * ind
    if label == "Intercept":
        return np.ones(n)
    v = np.ones(n)
    for p in split_top(label):
        v = v * piece_value(p, frame, atoms)
    return v
