"""Fresh process-state executor for C07: every task runs in a child of a fork server whose only
state is "formulae, numpy and pandas have been imported" (fresh config, fresh TRANSFORMS, no design
ever built).  Results are a pure function of the task, so they are cached per task key."""
import multiprocessing
import os
import sys

_POOL = None
_CACHE = {}


def _init():
    import logging

    import formulae  # noqa: F401  pylint: disable=unused-import

    logging.getLogger("formulae").setLevel(logging.CRITICAL)
    sys.stdout = open(os.devnull, "w")  # pylint: disable=consider-using-with


def pool():
    global _POOL
    if _POOL is None:
        # the checks run inside (daemonic) pool workers; this worker needs children of its own
        multiprocessing.current_process()._config["daemon"] = False  # pylint: disable=protected-access
        ctx = multiprocessing.get_context("forkserver")
        ctx.set_forkserver_preload(["formulae", "numpy", "pandas", "vf.fresh_tasks"])
        # the fork server is a new interpreter: it (and every fresh child) hashes strings with another seed than this
        # process, so a result that depends on set / dict-of-set iteration order differs from the one computed here
        before = os.environ.get("PYTHONHASHSEED")
        os.environ["PYTHONHASHSEED"] = "4242"
        try:
            _POOL = ctx.Pool(processes=int(os.environ.get("VERIF_FRESH_PROCS", "2")), initializer=_init, maxtasksperchild=1)
        finally:
            if before is None:
                os.environ.pop("PYTHONHASHSEED", None)
            else:
                os.environ["PYTHONHASHSEED"] = before
    return _POOL


def run_tasks(tasks):
    """tasks: list of (key, payload).  Returns {key: result}; each distinct key is executed once, in a pristine child."""
    from vf import fresh_tasks

    todo = [(k, p) for k, p in dict(tasks).items() if k not in _CACHE]
    if todo:
        for k, res in zip([k for k, _ in todo], pool().map(fresh_tasks.execute, [p for _, p in todo], chunksize=1)):
            _CACHE[k] = res
    return {k: _CACHE[k] for k, _ in tasks}


def shutdown():
    global _POOL
    if _POOL is not None:
        _POOL.terminate()
        _POOL = None
