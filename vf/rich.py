"""Free-form designs for the round-trip / metamorphic checks (C06, C08, C09, C10, C17): formulas over
a rich pool of atoms (nested and interacting stateful transforms, C/T/S with options, pointwise calls,
a user-registered stateful transform), on arbitrary frames.  No reference structure is needed here:
the oracles compare the library with itself on related inputs."""
import re

import numpy as np
from hypothesis import strategies as st

from vf import frames

NUM = ["x", "z", "center(x)", "scale(z)", "standardize(x)", "bs(x, df=4)", "bs(z, df=5, degree=2, intercept=True)",
       "poly(x, 3)", "poly(x, 4)", "poly(z, 2, raw=True)", "np.log(p)", "I(x + z)", "{x * 2}", "scale(np.log(p))", "center(scale(z))",
       "I(center(x) ** 2)", "ustat(z)", "np.abs(z)", "scale(x)", "I(scale(x) + z)", "np.add(center(z), x)", "bq",
       "bs(z, df=3, lower_bound=-1, upper_bound=1)"]  # boundary knots given by the user, narrower than the data
NUM_POINTWISE = ["x", "z", "np.log(p)", "I(x + z)", "{x * 2}", "np.abs(z)", "I(x ** 2)"]
CAT = ["f", "g", "h", "u", "v", "C(k)", "C(k, levels=lv)", "C(h)", "T(g, 'g1')", "S(g)", "S(f, 'a')", "C(g, Treatment('g3'))", "C(u, Sum)",
       "T(h)", "C(f, Sum('b'))", "C(bq)"]
CAT_PLAIN = ["f", "g", "h", "u", "C(k)"]
GRP = ["g", "f", "h", "C(k)", "g:f", "u", "u:h", "v", "S(f)", "C(h, Sum)", "I(k)", "g:I(k)"]  # also a factor that is a call returning numbers
COLS = ("x", "z", "p", "f", "g", "h", "u", "k", "y", "s", "n", "v", "bq")
_NAME = re.compile(r"\b(" + "|".join(COLS) + r")\b")


def bases(atom):
    """Frame columns an atom (or any formula text) mentions."""
    text = re.sub(r"'[^']*'|\"[^\"]*\"", "", atom)  # drop string literals
    text = re.sub(r"\[[^\]]*\]", "", text)  # and level subscripts such as u[p]
    text = re.sub(r"[A-Za-z_][\w.]*\s*\(", "(", text)  # and function names such as p(...) or np.log(...)
    return set(_NAME.findall(text))


class UStat:
    """User-registered stateful transform used by the generated formulas: remembers the range."""

    __transform_name__ = "ustat"

    def __init__(self):
        self.params_set = False
        self.lo = None
        self.span = None

    def __call__(self, x):
        if not self.params_set:
            self.lo = np.min(x)
            self.span = np.max(x) - np.min(x)
            self.params_set = True
        return (x - self.lo) / self.span


def register_user_transform():
    from formulae.transforms import TRANSFORMS, register_stateful_transform

    if "ustat" not in TRANSFORMS:
        register_stateful_transform(UStat)


def namespace_for(frame):
    """Objects the generated formulas refer to (levels= list for C(k, levels=lv))."""
    present = sorted(set(int(v) for v in frame["k"].dropna().tolist())) if "k" in frame else []
    return {"lv": list(reversed(present)), "np": np}


def frame_strategy(min_rows=8, max_rows=36, num_styles=("general", "general", "offset", "intdtype", "symmetric"), **kw):
    return frames.random_frame(cat_vars=("f", "g", "h", "u"), num_vars=("x", "z"), int_vars=("k",), pos_vars=("p",), intcat_vars=("v",), bool_vars=("bq",),
                               min_rows=min_rows, max_rows=max_rows, max_levels=4, num_styles=num_styles, **kw)


@st.composite
def term(draw, pool, max_atoms=3):
    k = draw(st.integers(1, max_atoms))
    out, used = [], set()
    for _ in range(k):
        a = draw(st.sampled_from(pool))
        b = bases(a)
        if b & used:
            continue
        used |= b
        out.append(a)
    return out


@st.composite
def family(draw, pool, max_terms=3, max_atoms=3):
    terms, seen = [], set()
    for _ in range(draw(st.integers(1, max_terms))):
        t = draw(term(pool, max_atoms))
        key = frozenset().union(*[frozenset(bases(a)) for a in t])
        if key in seen:
            continue
        seen.add(key)
        terms.append(t)
    return terms


@st.composite
def design(draw, num_pool=tuple(NUM), cat_pool=tuple(CAT), grp_pool=tuple(GRP), max_terms=3, max_groups=3, response="y"):
    """{"response", "intercept", "terms": [[atoms]], "groups": [{"lead","effects","factor"}]} + formula text"""
    pool = list(num_pool) + list(cat_pool)
    d = {"response": response, "intercept": draw(st.sampled_from(["implicit", "implicit", "0+", "-1", "1+"])),
         "terms": draw(family(pool, max_terms)), "groups": []}
    for gi in range(draw(st.integers(0, max_groups))):
        factor = draw(st.sampled_from(list(grp_pool)))
        if gi == 2 and d["groups"] and draw(st.booleans()):
            factor = d["groups"][0]["factor"]
        fb = bases(factor)
        epool = [a for a in pool if not (bases(a) & fb)]
        lead = draw(st.sampled_from([None, None, "0", "1"]))
        if lead == "1" and draw(st.booleans()):
            effects = []
        elif d["groups"] and d["groups"][0]["effects"] and draw(st.booleans()) and \
                not any(bases(a) & fb for t in d["groups"][0]["effects"] for a in t):
            # the same effect expression under another grouping factor, usually with another intercept rule
            effects = [list(t) for t in d["groups"][0]["effects"]]
            lead = draw(st.sampled_from(["0", None, "1"]))
        else:
            effects = draw(family(epool, 2, 2))
        same = [g for g in d["groups"] if g["factor"] == factor]
        if same:
            # a second item on the same grouping factor (its terms are then interleaved with another factor's):
            # only with effects the factor does not have yet, so that no term is written twice
            have = {frozenset().union(*[frozenset(bases(a)) for a in t]) for g in same for t in g["effects"]}
            effects = [t for t in effects if frozenset().union(*[frozenset(bases(a)) for a in t]) not in have]
            if not effects or len(d["groups"]) < 2:
                continue
            lead = "0"
        d["groups"].append({"lead": lead, "effects": effects, "factor": factor})
    d["formula"] = render(d)
    return d


def render(d):
    items = [":".join(t) for t in d["terms"]]
    for g in d["groups"]:
        parts = ([g["lead"]] if g["lead"] is not None else []) + [":".join(t) for t in g["effects"]]
        items.append("(" + " + ".join(parts) + " | " + g["factor"] + ")")
    body = " + ".join(items)
    style = d["intercept"]
    if style == "0+":
        body = "0 + " + body
    elif style == "1+":
        body = "1 + " + body
    elif style == "-1":
        body = body + " - 1"
    return (d["response"] + " ~ " + body) if d["response"] else body


def used_columns(d):
    out = set(bases(d["response"])) if d["response"] else set()
    for t in d["terms"]:
        for a in t:
            out |= bases(a)
    for g in d["groups"]:
        out |= bases(g["factor"])
        for t in g["effects"]:
            for a in t:
                out |= bases(a)
    return out


def stateful_objects(dm):
    """Every stateful-transform instance reachable from a design (for parameter snapshots)."""
    found = []

    def walk_lazy(node):
        if node is None:
            return
        st_ = getattr(node, "stateful_transform", None)
        if st_ is not None:
            found.append(st_)
        for a in getattr(node, "args", []) or []:
            walk_lazy(a)
        kw = getattr(node, "kwargs", None)
        if isinstance(kw, dict):
            for a in kw.values():
                walk_lazy(a)
        if hasattr(node, "expr") and not hasattr(node, "factor"):
            walk_lazy(node.expr)

    def walk_term(t):
        for c in getattr(t, "components", []):
            if hasattr(c, "call"):
                walk_lazy(c.call)

    for part in (dm.common, dm.group):
        if part is None:
            continue
        for t in part.terms.values():
            if hasattr(t, "factor"):
                walk_term(t.expr)
                walk_term(t.factor)
            else:
                walk_term(t)
    if dm.response is not None:
        walk_term(dm.response.term.term)
    return found


def snapshot_state(dm):
    """Comparable snapshot of all remembered state: transform parameters, levels, contrast matrices."""
    snap = []
    for obj in stateful_objects(dm):
        items = []
        for k, v in sorted(vars(obj).items()):
            if isinstance(v, np.ndarray):
                items.append((k, v.tobytes(), v.shape))
            elif isinstance(v, dict):
                items.append((k, tuple(sorted((kk, repr(vv)) for kk, vv in v.items()))))
            else:
                items.append((k, repr(v)))
        snap.append((type(obj).__name__, tuple(items)))

    def comp_state(c):
        cm = getattr(c, "contrast_matrix", None)
        return (str(c.name), repr(getattr(c, "levels", None)), None if cm is None else (cm.matrix.tobytes(), tuple(cm.labels)))

    for part in (dm.common, dm.group):
        if part is None:
            continue
        for t in part.terms.values():
            terms = [t.expr, t.factor] if hasattr(t, "factor") else [t]
            for tt in terms:
                for c in getattr(tt, "components", []):
                    snap.append(comp_state(c))
    return snap
