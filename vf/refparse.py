"""Reference tokeniser and precedence-climbing parser for the formula grammar, written from the
statement of C01 (one binding-power table, all binary operators left-associative).  No code
shared with formulae.scanner / formulae.parser.

Tokens are (kind, lexeme, literal).  ASTs are plain tuples:
    ('bin', op, l, r)  ('un', op, e)  ('grp', e)  ('call', callee, (args...))  ('assign', var, e)
    ('var', name, level|None)  ('lit', typename, value, lexeme|None)  ('bq', lexeme)
"""

WS = " \n\t\r"


class Reject(Exception):
    """The input is not a sentence of the grammar."""


SINGLE = {
    "(": "LEFT_PAREN", ")": "RIGHT_PAREN", "[": "LEFT_BRACKET", "]": "RIGHT_BRACKET",
    "{": "LEFT_BRACE", "}": "RIGHT_BRACE", ",": "COMMA", "+": "PLUS", "-": "MINUS",
    "%": "MODULO", "~": "TILDE", ":": "COLON", "|": "PIPE",
}
DOUBLE = {
    "/": ("/", "SLASH_SLASH", "SLASH"), "*": ("*", "STAR_STAR", "STAR"), "!": ("=", "BANG_EQUAL", "BANG"),
    "=": ("=", "EQUAL_EQUAL", "EQUAL"), "<": ("=", "LESS_EQUAL", "LESS"), ">": ("=", "GREATER_EQUAL", "GREATER"),
}


def tokenize(code):
    """Token list of a formula string, or Reject."""
    if len(code) == 0:
        raise Reject("empty")
    toks = []
    i, n = 0, len(code)
    while i < n:
        ch = code[i]
        if ch in WS:
            i += 1
        elif ch in "'\"":
            j = code.find(ch, i + 1)
            if j < 0:
                raise Reject("unterminated string")
            toks.append(("STRING", code[i : j + 1], code[i + 1 : j]))
            i = j + 1
        elif ch == "`":
            j = code.find("`", i + 1)
            if j < 0:
                raise Reject("unterminated back-quoted name")
            toks.append(("BQNAME", code[i : j + 1], None))
            i = j + 1
        elif ch in SINGLE:
            toks.append((SINGLE[ch], ch, None))
            i += 1
        elif ch in DOUBLE:
            second, two, one = DOUBLE[ch]
            if i + 1 < n and code[i + 1] == second:
                toks.append((two, ch + second, None))
                i += 2
            else:
                toks.append((one, ch, None))
                i += 1
        elif ch == ".":
            if i + 1 < n and code[i + 1].isdigit():
                j = i + 1
                while j < n and code[j].isdigit():
                    j += 1
                toks.append(("NUMBER", code[i:j], _num(code[i:j], True)))
                i = j
            else:
                toks.append(("PERIOD", ".", None))
                i += 1
        elif ch.isdigit():
            j = i
            while j < n and code[j].isdigit():
                j += 1
            is_float = False
            if j + 1 < n and code[j] == "." and code[j + 1].isdigit():
                is_float = True
                j += 1
                while j < n and code[j].isdigit():
                    j += 1
            toks.append(("NUMBER", code[i:j], _num(code[i:j], is_float)))
            i = j
        elif ch.isalpha():
            j = i
            while j < n and (code[j].isalnum() or code[j] in "._"):
                j += 1
            word = code[i:j]
            if word in ("True", "False", "None"):
                toks.append(("PYTHON_LITERAL", word, {"True": True, "False": False, "None": None}[word]))
            else:
                toks.append(("IDENTIFIER", word, None))
            i = j
        else:
            raise Reject("unexpected character")
    return toks


def _num(text, is_float):
    try:
        return float(text) if is_float else int(text)
    except ValueError as e:  # digits that are not ASCII digits
        raise Reject("not a number") from e


def with_intercept(toks):
    """The documented implicit intercept: `1 +` right after `~`, or in front when there is no `~`."""
    tildes = [i for i, t in enumerate(toks) if t[0] == "TILDE"]
    if len(tildes) > 1:
        raise Reject("more than one ~")
    one, plus = ("NUMBER", "1", 1), ("PLUS", "+", None)
    if not tildes:
        return [one, plus] + list(toks)
    k = tildes[0]
    return list(toks[: k + 1]) + [one, plus] + list(toks[k + 1 :])


BIN = {
    "PIPE": (2, "|"),
    "EQUAL_EQUAL": (3, "=="), "BANG_EQUAL": (3, "!="), "LESS_EQUAL": (3, "<="), "LESS": (3, "<"),
    "GREATER_EQUAL": (3, ">="), "GREATER": (3, ">"),
    "PLUS": (4, "+"), "MINUS": (4, "-"),
    "STAR": (5, "*"), "SLASH": (5, "/"),
    "COLON": (6, ":"),
    "STAR_STAR": (7, "**"),
}
ADD = 4
PIPE = 2


class P:
    """strict: the right side of `~` (and of `=`) is an additive expression.
    loose : it is a `|`-level expression (the literal reading of "~ lowest, then |")."""

    def __init__(self, toks, loose=False):
        self.t, self.i, self.loose = toks, 0, loose

    def peek(self):
        return self.t[self.i][0] if self.i < len(self.t) else "EOF"

    def next(self):
        k = self.t[self.i]
        self.i += 1
        return k

    def parse(self):
        e = self.expression()
        if self.peek() != "EOF":
            raise Reject("tokens left over")
        well_formed(e)
        return e

    def expression(self):
        e = self.tilde()
        if self.peek() == "EQUAL":
            self.next()
            r = self.binary(PIPE if self.loose else ADD)
            if e[0] != "var":
                raise Reject("assignment target")
            return ("assign", e, r)
        return e

    def tilde(self):
        e = self.binary(PIPE)
        if self.peek() == "TILDE":
            self.next()
            r = self.binary(PIPE if self.loose else ADD)
            return ("bin", "~", e, r)
        return e

    def binary(self, minp):
        left = self.unary()
        while True:
            k = self.peek()
            if k in BIN and BIN[k][0] >= minp:
                p, name = BIN[k]
                self.next()
                right = self.binary(p + 1)  # left associative
                left = ("bin", name, left, right)
            else:
                return left

    def unary(self):
        if self.peek() in ("PLUS", "MINUS"):
            k = self.next()
            return ("un", k[1], self.unary())
        return self.call()

    def call(self):
        e = self.primary()
        while self.peek() == "LEFT_PAREN":
            self.next()
            args = []
            if self.peek() != "RIGHT_PAREN":
                while True:
                    args.append(self.expression())
                    if self.peek() == "COMMA":
                        self.next()
                    else:
                        break
            if self.peek() != "RIGHT_PAREN":
                raise Reject("expected ) after arguments")
            self.next()
            e = ("call", e, tuple(args))
        return e

    def primary(self):
        k = self.peek()
        if k == "IDENTIFIER":
            name = self.next()[1]
            if self.peek() == "LEFT_BRACKET":
                self.next()
                lk = self.peek()
                if lk == "STRING":
                    t = self.next()
                    level = ("lit", "str", t[2], t[1])
                elif lk == "IDENTIFIER":
                    t = self.next()
                    if self.peek() == "LEFT_BRACKET":
                        raise Reject("nested brackets")
                    level = ("lit", "str", t[1], None)
                else:
                    raise Reject("level must be a string or an identifier")
                if self.peek() != "RIGHT_BRACKET":
                    raise Reject("expected ]")
                self.next()
                return ("var", name, level)
            return ("var", name, None)
        if k == "NUMBER" or k == "PYTHON_LITERAL":
            t = self.next()
            return ("lit", type(t[2]).__name__, t[2], t[1])  # the lexeme is kept: renderings repeat the number as written
        if k == "STRING":
            t = self.next()
            return ("lit", "str", t[2], t[1])
        if k == "BQNAME":
            return ("bq", self.next()[1])
        if k == "LEFT_PAREN":
            self.next()
            e = self.expression()
            if self.peek() != "RIGHT_PAREN":
                raise Reject("expected )")
            self.next()
            return ("grp", e)
        if k == "LEFT_BRACE":
            self.next()
            e = self.expression()
            if self.peek() != "RIGHT_BRACE":
                raise Reject("expected }")
            self.next()
            return ("call", ("var", "I", None), (e,))
        raise Reject("cannot start an expression with " + k)


def well_formed(ast):
    """Context conditions of the grammar (a sentence in which some token could only be ignored is not a sentence):
    `~` only as the top-level operator (the whole formula may be parenthesised); `variable[level]` only as the whole
    response; inside calls no `variable[level]`, neither as argument nor as function name, and no repeated keyword."""
    root = ast
    while root[0] == "grp":
        root = root[1]
    response = None
    if root[0] == "bin" and root[1] == "~":
        response = root[2]
        while response[0] == "grp" or (response[0] == "un" and response[1] == "+"):
            response = response[1] if response[0] == "grp" else response[2]

    def walk(n, in_call, is_root):
        k = n[0]
        if k == "bin":
            if n[1] == "~" and not is_root:
                raise Reject("nested ~")
            walk(n[2], in_call, False)
            walk(n[3], in_call, False)
        elif k == "un":
            walk(n[2], in_call, False)
        elif k == "grp":
            walk(n[1], in_call, is_root)
        elif k == "assign":
            if n[1][2] is not None:
                raise Reject("keyword name with a level")  # f(x[a]=1): the [a] could only be ignored
            walk(n[2], in_call, False)
        elif k == "call":
            if n[1][0] != "var":
                raise Reject("only a (dotted) name can be called")
            if n[1][2] is not None:
                raise Reject("function name with a level")
            seen = set()
            for a in n[2]:
                if a[0] == "assign":
                    if a[1][1] in seen:
                        raise Reject("keyword argument repeated")
                    seen.add(a[1][1])
                walk(a, True, False)
        elif k == "var":
            if n[2] is not None and (in_call or n is not response):
                raise Reject("level outside the response")

    walk(root, False, True)


def parse(toks, loose=False):
    return P(list(toks), loose).parse()


def try_parse(toks, loose=False):
    try:
        return parse(toks, loose)
    except Reject:
        return None
    except RecursionError:
        return None


# ---- conversion of the library's AST ---------------------------------------------------------
OPN = {
    "PIPE": "|", "EQUAL_EQUAL": "==", "BANG_EQUAL": "!=", "LESS_EQUAL": "<=", "LESS": "<", "GREATER_EQUAL": ">=",
    "GREATER": ">", "PLUS": "+", "MINUS": "-", "STAR": "*", "SLASH": "/", "COLON": ":", "STAR_STAR": "**", "TILDE": "~",
}


def conv(a):
    from formulae import expr as E

    if isinstance(a, E.Binary):
        return ("bin", OPN[a.operator.kind], conv(a.left), conv(a.right))
    if isinstance(a, E.Unary):
        return ("un", a.operator.lexeme, conv(a.right))
    if isinstance(a, E.Grouping):
        return ("grp", conv(a.expression))
    if isinstance(a, E.Call):
        return ("call", conv(a.callee), tuple(conv(x) for x in a.args))
    if isinstance(a, E.Variable):
        level = a.level
        if level is not None:
            level = conv(level) if not isinstance(level, E.Literal) else ("lit", type(level.value).__name__, level.value, level.lexeme)
        return ("var", a.name.lexeme, level)
    if isinstance(a, E.Literal):
        return ("lit", type(a.value).__name__, a.value, a.lexeme)
    if isinstance(a, E.QuotedName):
        return ("bq", a.expression.lexeme)
    if isinstance(a, E.Assign):
        return ("assign", conv(a.name), conv(a.value))
    raise TypeError(a)


def strip_groups(a):
    if not isinstance(a, tuple):
        return a
    if a and a[0] == "grp":
        return strip_groups(a[1])
    return tuple(strip_groups(x) for x in a)


def same_ast(a, b):
    """Equality that treats the level literal of y[ident] / y['s'] by value only and floats by value."""
    if isinstance(a, tuple) and isinstance(b, tuple):
        if len(a) != len(b):
            return False
        if a and a[0] == "var" and b and b[0] == "var":
            if a[1] != b[1]:
                return False
            la, lb = a[2], b[2]
            if la is None or lb is None:
                return la is None and lb is None
            return la[:3] == lb[:3]
        if a and a[0] == "lit" and b and b[0] == "lit":
            if a[1] == "str" and a[3] is not None and b[3] is not None and a[3] != b[3]:
                return False  # a string literal keeps its quotes
            return a[:3] == b[:3] and type(a[2]) is type(b[2])  # the spelling of a number is not part of the tree
        return all(same_ast(x, y) for x, y in zip(a, b))
    return type(a) is type(b) and a == b


# ---- rendering --------------------------------------------------------------------------------
def src(a):
    """Source text of an AST with exactly its own parentheses (single spaces)."""
    k = a[0]
    if k == "bin":
        return f"{src(a[2])} {a[1]} {src(a[3])}"
    if k == "un":
        return f"{a[1]}{src(a[2])}"
    if k == "grp":
        return f"({src(a[1])})"
    if k == "call":
        return f"{src(a[1])}({', '.join(src(x) for x in a[2])})"
    if k == "assign":
        return f"{src(a[1])}={src(a[2])}"
    if k == "var":
        if a[2] is None:
            return a[1]
        lv = a[2]
        return f"{a[1]}[{lv[3] if lv[3] is not None else lv[2]}]"
    if k == "lit":
        return a[3] if a[3] is not None else repr(a[2])
    if k == "bq":
        return a[1]
    raise ValueError(k)


def full_deep(a):
    """Fully parenthesised rendering that also goes into call arguments (the operators inside a call are parsed by the same
    grammar: the value of a call does not change when its arguments are parenthesised the way they are parsed)."""
    k = a[0]
    if k == "bin":
        if a[1] == "~":
            return f"{full_deep(a[2])} ~ {full_deep(a[3])}"
        return f"({full_deep(a[2])} {a[1]} {full_deep(a[3])})"
    if k == "un":
        return f"({a[1]}{full_deep(a[2])})"
    if k == "grp":
        return f"({full_deep(a[1])})"
    if k == "call":
        return f"{src(a[1])}({', '.join(full_deep(x) for x in a[2])})"
    if k == "assign":
        return f"{src(a[1])}={full_deep(a[2])}"
    return src(a)


def full(a):
    """Fully parenthesised formula-level rendering; call arguments keep their own source."""
    k = a[0]
    if k == "bin":
        if a[1] == "~":
            return f"{full(a[2])} ~ {full(a[3])}"
        return f"({full(a[2])} {a[1]} {full(a[3])})"
    if k == "un":
        return f"({a[1]}{full(a[2])})"
    if k == "grp":
        return f"({full(a[1])})"
    return src(a)
