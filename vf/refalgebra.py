"""Reference Wilkinson-Rogers / lme4 term algebra, written from the statement of C02.

Shares no code with formulae.terms.  Trees are plain tuples:

    ('var', name)            an atom (variable or call, `name` is its normalised spelling)
    (op, left, right)        op in '+', '-', ':', '*', '/'
    ('**', tree, n)          power of a sum, n >= 2
A right-hand side is a list of (sign, item) where item is a tree, ('lit', '1'|'0'|'-1') or
('grp', lead, effect_tree_or_None, group_tree) standing for `(lead + effect | group)`.

A term is a tuple of distinct factor names in order of first appearance; () is the intercept.
Comparison with the library is done on frozensets (term order and factor order are not judged).
"""
import itertools


def norm_atom(name):
    """One name for the spellings of a call that differ only in the order of its keyword arguments (the same call)."""
    if "=" not in name or not name.endswith(")") or "(" not in name:
        return name
    head, body = name[: name.index("(")], name[name.index("(") + 1: -1]
    parts, depth, cur = [], 0, ""
    for ch in body:
        if ch in "([{":
            depth += 1
        elif ch in ")]}":
            depth -= 1
        if ch == "," and depth == 0:
            parts.append(cur.strip())
            cur = ""
        else:
            cur += ch
    if cur.strip():
        parts.append(cur.strip())
    pos = [p for p in parts if "=" not in p.split("(")[0]]
    kw = sorted(p for p in parts if "=" in p.split("(")[0])
    return f"{head}({', '.join(pos + kw)})"


def uniq(seq):
    out = []
    for s in seq:
        if s not in out:
            out.append(s)
    return out


def tjoin(a, b):
    return tuple(uniq(list(a) + list(b)))


def same(a, b):
    return frozenset(a) == frozenset(b)


def uniq_terms(terms):
    out = []
    for t in terms:
        if not any(same(t, o) for o in out):
            out.append(t)
    return out


# KF-C02-1 is the library returning the left operand of `M * M` when both operands are the same model of >= 2
# terms.  With this switch on, the reference reproduces exactly that deviation (and nothing else), which is how the
# known-finding predicate of C02 tells the recorded deviation from any other wrong expansion of such a formula.
SELF_PRODUCT_SHORTCUT = False


class self_product_shortcut:
    def __enter__(self):
        global SELF_PRODUCT_SHORTCUT
        SELF_PRODUCT_SHORTCUT = True

    def __exit__(self, *exc):
        global SELF_PRODUCT_SHORTCUT
        SELF_PRODUCT_SHORTCUT = False


def ev(t):
    """Expansion of a pipe-free, literal-free tree: ordered duplicate-free list of terms."""
    k = t[0]
    if k == "var":
        return [(norm_atom(t[1]),)]
    if k == "+":
        return uniq_terms(ev(t[1]) + ev(t[2]))
    if k == "-":
        b = ev(t[2])
        return [x for x in ev(t[1]) if not any(same(x, y) for y in b)]
    if k == ":":
        a, b = ev(t[1]), ev(t[2])
        return uniq_terms([tjoin(x, y) for x in a for y in b])
    if k == "*":
        a, b = ev(t[1]), ev(t[2])
        if SELF_PRODUCT_SHORTCUT and len(a) >= 2 and set(a) == set(b):
            return a
        return uniq_terms(a + b + [tjoin(x, y) for x in a for y in b])
    if k == "/":
        a, b = ev(t[1]), ev(t[2])
        allf = tuple(uniq([f for x in a for f in x]))
        return uniq_terms(a + [tjoin(allf, y) for y in b])
    if k == "**":
        a, n = ev(t[1]), t[2]
        out = list(a)
        for i in range(2, n + 1):
            for c in itertools.combinations(a, i):
                tt = ()
                for x in c:
                    tt = tjoin(tt, x)
                out.append(tt)
        return uniq_terms(out)
    raise ValueError(k)


def rhs(items):
    """Expansion of a right-hand side: (common terms incl. () for the intercept, group pairs).

    The intercept is present by default; items are applied left to right.
    Returns also `empty_effect`: True when some group item has no effect term at all (the
    either/or case: the library may raise or produce no term).
    """
    common = [()]
    group = []
    empty_effect = False
    for sign, it in items:
        if it[0] == "lit":
            v = it[1]
            if sign == "+" and v == "1":
                if () not in common:
                    common.append(())
            elif (sign == "+" and v in ("0", "-1")) or (sign == "-" and v == "1"):
                common = [t for t in common if t != ()]
            else:
                raise ValueError("undocumented literal position")
        elif it[0] == "par0":
            # `(0 + e)` added to a formula: the library may refuse it (it does today); if it is accepted, the 0 removes the intercept
            if sign != "+":
                raise ValueError("undocumented literal position")
            common = uniq_terms([t for t in common if t != ()] + ev(it[1]))
        elif it[0] == "par1":
            # `(1 + e)`: a parenthesised sum that carries an explicit intercept (documented for `1 + (x + y)` and kin)
            terms = ev(it[1])
            if sign == "+":
                if () not in common:
                    common.append(())
                common = uniq_terms(common + terms)
            else:
                common = [t for t in common if t != () and not any(same(t, y) for y in terms)]
        elif it[0] == "grp":
            lead, e, g = it[1], it[2], it[3]
            eff = ev(e) if e is not None else []
            if lead in (None, "1"):
                eff = [()] + eff
            if not eff:
                empty_effect = True
            pairs = [(x, y) for x in eff for y in ev(g)]
            for p in pairs:
                present = [q for q in group if same(q[0], p[0]) and same(q[1], p[1])]
                if sign == "+":
                    if not present:
                        group.append(p)
                else:
                    group = [q for q in group if q not in present]
        else:
            terms = ev(it)
            if sign == "+":
                common = uniq_terms(common + terms)
            else:
                common = [t for t in common if not any(same(t, y) for y in terms)]
    return common, group, empty_effect



def ev_ordered(t):
    """Second admissible reading: term identity by ordered factor list (a:b and b:a are two terms)."""
    k = t[0]
    if k == "var":
        return [(norm_atom(t[1]),)]
    u = uniq
    if k == "+":
        return u(ev_ordered(t[1]) + ev_ordered(t[2]))
    if k == "-":
        b = ev_ordered(t[2])
        return [x for x in ev_ordered(t[1]) if x not in b]
    a = ev_ordered(t[1])
    if k == "**":
        out = list(a)
        for i in range(2, t[2] + 1):
            for c in itertools.combinations(a, i):
                tt = ()
                for x in c:
                    tt = tjoin(tt, x)
                out.append(tt)
        return u(out)
    b = ev_ordered(t[2])
    if k == ":":
        return u([tjoin(x, y) for x in a for y in b])
    if k == "*":
        if SELF_PRODUCT_SHORTCUT and len(a) >= 2 and set(a) == set(b):
            return a
        return u(a + b + [tjoin(x, y) for x in a for y in b])
    if k == "/":
        allf = tuple(u([f for x in a for f in x]))
        return u(a + [tjoin(allf, y) for y in b])
    raise ValueError(k)



def rhs_ordered(items):
    common = [()]
    group = []
    for sign, it in items:
        if it[0] == "lit":
            v = it[1]
            if sign == "+" and v == "1":
                if () not in common:
                    common.append(())
            else:
                common = [t for t in common if t != ()]
        elif it[0] == "par0":
            common = uniq([t for t in common if t != ()] + ev_ordered(it[1]))
        elif it[0] == "par1":
            terms = ev_ordered(it[1])
            if sign == "+":
                if () not in common:
                    common.append(())
                common = uniq(common + terms)
            else:
                common = [t for t in common if t != () and t not in terms]
        elif it[0] == "grp":
            lead, e, g = it[1], it[2], it[3]
            eff = ev_ordered(e) if e is not None else []
            if lead in (None, "1"):
                eff = [()] + eff
            for p in [(x, y) for x in eff for y in ev_ordered(g)]:
                if sign == "+":
                    if p not in group:
                        group.append(p)
                else:
                    group = [q for q in group if q != p]
        else:
            terms = ev_ordered(it)
            if sign == "+":
                common = uniq(common + terms)
            else:
                common = [t for t in common if t not in terms]
    return common, group



PREC = {"+": 4, "-": 4, "*": 5, "/": 5, ":": 6, "**": 7}


def render_full(t):
    k = t[0]
    if k == "var":
        return t[1]
    if k == "**":
        return f"({render_full(t[1])})**{t[2]}"
    return f"({render_full(t[1])} {k} {render_full(t[2])})"


def render_min(t, parent=0, right=False):
    """Parentheses only where the precedence table (left-associative) needs them."""
    k = t[0]
    if k == "var":
        return t[1]
    if k == "**":
        inner = t[1]
        s = render_min(inner) if inner[0] == "var" else "(" + render_min(inner) + ")"
        s = f"{s}**{t[2]}"
        p = PREC["**"]
    else:
        p = PREC[k]
        s = f"{render_min(t[1], p, False)} {k} {render_min(t[2], p, True)}"
    if p < parent or (p == parent and right):
        return "(" + s + ")"
    return s


def _r(renderer, t, right):
    if renderer is render_min:
        return render_min(t, PREC["+"], right)
    return renderer(t)


def render_item(it, renderer=render_full, right=False):
    if it[0] == "lit":
        return it[1]
    if it[0] == "par0":
        return "(0 + " + _r(renderer, it[1], True) + ")"
    if it[0] == "par1":
        return "(1 + " + _r(renderer, it[1], True) + ")"
    if it[0] == "grp":
        lead, e, g = it[1], it[2], it[3]
        parts = []
        if lead is not None:
            parts.append(lead)
        if e is not None:
            parts.append(_r(renderer, e, lead is not None))
        return "(" + " + ".join(parts) + " | " + renderer(g) + ")"
    return _r(renderer, it, right)


def render_rhs(items, renderer=render_full):
    out = ""
    for i, (sign, it) in enumerate(items):
        if i == 0:
            s = render_item(it, renderer, sign == "-")
            out = s if sign == "+" else "- " + s
        else:
            out += f" {sign} {render_item(it, renderer, True)}"
    return out


def canon_model(common, group):
    # a back-quoted atom is a variable whose name is the text between the quotes
    def names(t):
        # a sorted tuple, not a set: a factor that occurs twice in one term is a different (wrong) term
        return tuple(sorted(n[1:-1] if len(n) > 1 and n[0] == n[-1] == "`" else norm_atom(n) for n in t))

    c = frozenset(names(t) for t in common)
    g = frozenset((names(x), names(y)) for x, y in group)
    return c, g
