"""Runner:  python -m vf.run <Cxx> quick|thorough   |   python -m vf.run <Cxx> --replay <file>"""
import glob
import importlib
import json
import os
import sys
import time
import traceback

from vf import core
from vf.core import Ctx, HarnessError, canon

HERE = core.HERE


def load_known(prop):
    path = os.path.join(HERE, "known_findings.json")
    if not os.path.exists(path):
        return []
    with open(path, encoding="utf8") as fh:
        entries = json.load(fh)["findings"]
    return [e for e in entries if e["property"] == prop]


def check_tree():
    repo = os.path.realpath(os.environ.get("VERIF_REPO", "/repo"))
    import formulae

    got = os.path.realpath(os.path.dirname(os.path.dirname(formulae.__file__)))
    if got != repo:
        raise HarnessError(f"formulae imported from {got}, expected the tree under test {repo}")
    core.quiet_formulae()
    return repo


def replay_case(mod, prop, tier, seed, known, case):
    c = Ctx(prop, tier, seed, known)
    mod.replay(c, case)
    return c


def activate_known(mod, prop, tier, seed, entries, out):
    """Open findings whose reproducer still violates are active: they print KNOWN-FINDING and
    their class predicate excludes matching cases from the affected clause."""
    active = []
    for e in entries:
        if e.get("status") != "open":
            continue
        pred = mod.KNOWN_CLASSES[e["class"]]
        c = replay_case(mod, prop, tier, seed, [], e["reproducer"])
        hit = [b for b in c.buckets if b.split("|")[0] == e["clause"]]
        if hit:
            out.append(f"KNOWN-FINDING: property={prop} {e['id']} {e['title']}")
            # `clause` names the clause the reproducer fails; with `any_clause` the predicate itself decides which other
            # clauses of the same cases the recorded deviation explains (e.g. a refusal instead of another value)
            active.append((e["id"], None if e.get("any_clause") else e["clause"], pred))
    return active


def write_evidence(mod, ctx, prop, tier, seed, wall, violations, known_lines):
    samples = []
    strata = sorted(ctx.samples)
    for depth in range(Ctx.PER_STRATUM):
        for name in strata:
            items = sorted(ctx.samples[name], reverse=True)
            if depth < len(items) and len(samples) < Ctx.MAX_SAMPLES:
                obj = json.loads(items[depth][1])
                samples.append({"class": name, "case": obj} if name else obj)
    cov = {
        "evaluations": ctx.evaluations,
        "distinct_nontrivial": len(ctx.nontrivial) + ctx.nontrivial_enumerated,
        "rule": mod.RULE,
        "samples": samples,
        "exhaustive": bool(ctx.exhaustive) and all(v.get("complete", False) for v in ctx.exhaustive.values())
        and getattr(mod, "EXHAUSTIVE_ONLY", False),
        "exhaustive_subdomains": ctx.exhaustive,
        "classes": dict(sorted(ctx.classes.items())),
        "rejected_by_formulae": dict(ctx.rejected),
        "excluded_known": dict(ctx.excluded_known),
        "known_findings_reported": known_lines,
        "budget_truncated": ctx.truncated,
        "notes": ctx.notes,
    }
    ev = {
        "property_id": prop,
        "tier": tier,
        "seed": seed,
        "level": "exploration",
        "coverage": cov,
        "assumptions": list(getattr(mod, "ASSUMPTIONS", [])),
        "wall_s": round(wall, 2),
        "violations": violations,
    }
    evdir = os.environ.get("VERIF_EVIDENCE_DIR") or os.path.join(HERE, "evidence")
    os.makedirs(evdir, exist_ok=True)
    path = os.path.join(evdir, f"{prop}.json")
    tmp = path + ".tmp"
    with open(tmp, "w", encoding="utf8") as fh:
        json.dump(ev, fh, indent=1, ensure_ascii=False, default=str)
    os.replace(tmp, path)
    return ev


def main(argv):
    if len(argv) < 2:
        print("usage: check <Cxx> quick|thorough | check <Cxx> --replay <file>", file=sys.stderr)
        return 2
    prop = argv[0]
    seed = int(os.environ.get("VERIF_SEED", "1") or "1")
    t0 = time.time()
    try:
        check_tree()
        mod = importlib.import_module(f"vf.checks.{prop.lower()}")
        entries = load_known(prop)
        known_lines = []

        if argv[1] == "--replay":
            with open(argv[2], encoding="utf8") as fh:
                doc = json.load(fh)
            case = doc["case"] if isinstance(doc, dict) and "case" in doc else doc
            active = activate_known(mod, prop, "quick", seed, entries, known_lines)
            c = replay_case(mod, prop, "quick", seed, active, case)
            for line in known_lines:
                print(line)
            if c.buckets:
                for b, info in c.buckets.items():
                    print(f"replay: {b}: {info['cases'][0]['detail']}")
                print(f"VIOLATION property={prop} replay={argv[2]}")
                return 1
            print(f"replay: property {prop} holds on {argv[2]}")
            return 0

        tier = argv[1]
        if tier not in ("quick", "thorough"):
            raise HarnessError(f"unknown tier {tier}")
        active = activate_known(mod, prop, tier, seed, entries, known_lines)
        ctx = Ctx(prop, tier, seed, active)
        budget = float(os.environ.get("VERIF_BUDGET_S", "0") or 0)
        if budget:
            ctx.deadline = t0 + budget

        # regression tier: committed replay files
        for path in sorted(glob.glob(os.path.join(HERE, "replays", prop, "*.json"))):
            with open(path, encoding="utf8") as fh:
                doc = json.load(fh)
            c = replay_case(mod, prop, tier, seed, active, doc["case"])
            ctx.classes["replay_file"] += 1
            for b, info in c.buckets.items():
                for f in info["cases"]:
                    ctx._current = None
                    ctx.fail(f["clause"], f["case"], f["detail"] + f" [replay {os.path.basename(path)}]", f["key"])
            ctx.evaluations += 1

        mod.run(ctx)

        violations = 0
        lines = []
        if ctx.buckets:
            outdir = os.path.join(HERE, "replays", prop, "found")  # git-ignored scratch, next to the corpus
            os.makedirs(outdir, exist_ok=True)
            for b, info in sorted(ctx.buckets.items()):
                f = info["cases"][0]
                name = "found-" + core.digest(b + canon(f["case"])).hex() + ".json"
                rel = os.path.join("replays", prop, "found", name)
                with open(os.path.join(HERE, rel), "w", encoding="utf8") as fh:
                    json.dump(
                        {"property": prop, "clause": f["clause"], "key": f["key"], "detail": f["detail"],
                         "occurrences": info["count"], "case": f["case"]},
                        fh, indent=1, ensure_ascii=False, default=str,
                    )
                lines.append(f"  bucket {b} x{info['count']}: {f['detail'][:300]}")
                lines.append(f"VIOLATION property={prop} replay={rel}")
                violations += 1
        ev = write_evidence(mod, ctx, prop, tier, seed, time.time() - t0, violations, known_lines)
        if ev["coverage"]["distinct_nontrivial"] < 2 or ev["coverage"]["evaluations"] < 1:
            raise HarnessError("generator starved: fewer than two distinct non-trivial cases")
        for line in known_lines:
            print(line)
        for line in lines:
            print(line)
        print(
            f"{prop} {tier} seed={seed}: evaluations={ctx.evaluations} distinct_nontrivial={len(ctx.nontrivial) + ctx.nontrivial_enumerated} "
            f"excluded_known={sum(ctx.excluded_known.values())} rejected={sum(ctx.rejected.values())} "
            f"violations={violations} wall={time.time() - t0:.1f}s"
        )
        return 1 if violations else 0
    except HarnessError as e:
        print(f"HARNESS-ERROR {prop}: {e}", file=sys.stderr)
        return 2
    except BaseException:  # pylint: disable=broad-except
        print(f"HARNESS-ERROR {prop}: unexpected exception\n{traceback.format_exc()}", file=sys.stderr)
        return 2


if __name__ == "__main__":
    sys.exit(main(sys.argv[1:]))
