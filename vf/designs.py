"""Generated designs shared by the matrix-level checks: a right-hand side is a list of signed
items over atom names (the same shape vf.refalgebra expands), so every check knows which terms the
formula denotes without asking the library.
"""
import functools

from hypothesis import strategies as st

from vf import refalgebra as ra
from vf import refcoding as rc

OPS = ["+", ":", "*", "/"]


def var(a):
    return ("var", a)


def tup(x):
    if isinstance(x, list):
        return tuple(tup(i) for i in x)
    return x


def items_of(case):
    return [(s, tup(it)) for s, it in case["items"]]


def formula_of(case):
    body = ra.render_rhs(items_of(case), ra.render_min)
    resp = case.get("response", "y")
    return f"{resp} ~ {body}" if resp else body


def structure_of(case):
    """(common terms as tuples of atoms incl. () for the intercept, group pairs (effect, factor))"""
    common, group, _ = ra.rhs(items_of(case))
    return common, group


def atoms_of(case):
    out = []
    for t in ra_item_trees(items_of(case)):
        _collect(t, out)
    return out


def ra_item_trees(items):
    for _, it in items:
        if it[0] == "grp":
            if it[2] is not None:
                yield it[2]
            yield it[3]
        elif it[0] != "lit":
            yield it


def _collect(t, out):
    if t[0] == "var":
        if t[1] not in out:
            out.append(t[1])
        return
    _collect(t[1], out)
    if t[0] != "**":
        _collect(t[2], out)


def distinct_factor_sets(terms):
    """No two terms with the same set of base variables (a:b + b:a is outside every domain)."""
    seen = set()
    for t in terms:
        k = frozenset(rc.atom_base(a) for a in t)
        if k in seen or len(k) < len(t):
            return False
        seen.add(k)
    return True


@functools.lru_cache(maxsize=None)
def effect_tree(atoms, max_leaves=3, ops=("+", ":", "*", "/")):
    leaf = st.sampled_from(list(atoms)).map(var)

    def extend(ch):
        b = st.tuples(st.sampled_from(list(ops)), ch, ch)
        pw = st.tuples(st.just("**"), st.tuples(st.just("+"), ch, ch), st.sampled_from([2, 3]))
        return st.one_of(b, b, b, pw)

    return st.recursive(leaf, extend, max_leaves=max_leaves)


@st.composite
def rhs_items(draw, cat_atoms, num_atoms, group_factors=("g",), max_items=3, max_leaves=3, allow_groups=True,
              intercepts=True, ops=("+", ":", "*", "/")):
    """A right-hand side whose reference expansion has distinct factor sets per family; returns `items`."""
    atoms = tuple(cat_atoms) + tuple(num_atoms)
    for _ in range(20):
        items = []
        n = draw(st.integers(1, max_items))
        for i in range(n):
            kind = draw(st.sampled_from(["tree", "tree", "grp"] if allow_groups else ["tree"]))
            if kind == "tree":
                items.append(["+", draw(effect_tree(atoms, max_leaves, ops))])
            else:
                lead = draw(st.sampled_from([None, None, "0", "1"]))
                g = draw(st.sampled_from(list(group_factors)))
                gt = var(g) if isinstance(g, str) else g
                gatoms = []
                _collect(gt, gatoms)
                gbases = {rc.atom_base(a) for a in gatoms}
                eatoms = tuple(a for a in atoms if rc.atom_base(a) not in gbases)
                if lead == "1" and draw(st.booleans()):
                    e = None
                else:
                    e = draw(effect_tree(eatoms, 2, ops))
                items.append(["+", ("grp", lead, e, gt)])
        if intercepts:
            style = draw(st.sampled_from(["implicit", "implicit", "0+", "-1", "1+"]))
            if style == "0+":
                items.insert(0, ["+", ("lit", "0")])
            elif style == "1+":
                items.insert(0, ["+", ("lit", "1")])
            elif style == "-1":
                items.append(["-", ("lit", "1")])
        try:
            common, group, empty = ra.rhs([(s, tup(it)) for s, it in items])
        except ValueError:
            continue
        if empty:
            continue
        if not distinct_factor_sets([t for t in common if t]):
            continue
        by_factor = {}
        ok = True
        for e, f in group:
            if len({rc.atom_base(a) for a in f}) < len(f):
                ok = False
            by_factor.setdefault(frozenset(f), []).append(e)
        if not ok or not all(distinct_factor_sets([t for t in es if t]) for es in by_factor.values()):
            continue
        if not common and not group:
            continue
        # the library tells a:b and b:a apart: a family that has both is outside every domain
        oc, og = ra.rhs_ordered([(s, tup(it)) for s, it in items])
        if len(oc) != len(common) or len(og) != len(group):
            continue
        return [[s, _listify(it)] for s, it in items]
    return [["+", ["var", atoms[0]]]]


def _listify(x):
    if isinstance(x, tuple):
        return [_listify(i) for i in x]
    return x
