"""C04 — every design-matrix column holds exactly what its label says."""
import numpy as np
from hypothesis import strategies as st

from vf import core, designs, frames
from vf import refcoding as rc

PROPERTY = "C04"
RULE = (
    "cases = (formula, frame): formulas are right-hand sides of main effects, interactions (any arity and factor "
    "order, also spelled with * / ** and parenthesised sums) and group items over plain numeric variables, plain "
    "categorical variables (str / Categorical / ordered Categorical), C(k) on an integer column and, in a quarter of the cases, "
    "the three-column numeric component bs(z, df=3); frames have drawn "
    "row counts, unequal level counts, drawn column order and index; distinct = distinct (formula, frame); non-trivial "
    "= an interaction of two categorical factors with different level counts, or a group item with a categorical "
    "effect, or an ordered categorical factor"
)
ASSUMPTIONS = [
    "only atoms whose labels have a pointwise meaning are generated (plain variables and default-coded C(k))",
    "which columns exist (full vs reduced coding) is not judged here (C03/C05); only that each label denotes its column",
    "every declared level of an ordered categorical occurs in the frame",
]

CATS = ("f", "g", "h", "C(k)", "T(f, 'a')", "C(g, Treatment('g1'))", "T(h, 'mid')")
NUMS = ("x", "z")
WIDE_NUMS = ("bs(z, df=3)",)
GROUP_FACTORS = ("g", "h", "C(k)", "k", (":", ("var", "g"), ("var", "h")), (":", ("var", "h"), ("var", "f")),
                 ("+", ("var", "g"), ("var", "h")), ("/", ("var", "g"), ("var", "C(k)")), ("+", ("var", "h"), ("var", "C(k)")))


@st.composite
def case_strategy(draw):
    spec = draw(frames.random_frame(cat_vars=("f", "g", "h"), num_vars=("x", "z"), int_vars=("k",), min_rows=5, max_rows=30))
    nums = NUMS
    zcol = [c for c in spec["cols"] if c["name"] == "z"]
    if zcol and len(set(zcol[0]["values"])) >= 4 and draw(st.integers(0, 3)) == 0:
        nums = NUMS + WIDE_NUMS  # a numeric component of several columns: `f[b]:bs(z, df=3)[1]` is a product like any other
    items = draw(designs.rhs_items(CATS, nums, GROUP_FACTORS, max_items=3, max_leaves=4))
    return {"items": items, "response": "y", "frame": spec}


def expected_levels(frame, spec, atom):
    c = frames.column(spec, rc.atom_base(atom))
    if c["kind"] == "cat" and c.get("ordered"):
        return [str(v) for v in c["categories"]]
    vals = frame[rc.atom_base(atom)].tolist()
    return [str(v) for v in sorted(set(vals))]


def nontrivial(case, spec):
    common, group = designs.structure_of(case)
    nl = {}
    for c in spec["cols"]:
        nl[c["name"]] = len(set(c["values"]))
    for t in common + [e for e, _ in group] + [f for _, f in group]:
        cats = [a for a in t if rc.is_cat(a)]
        if len({nl[rc.atom_base(a)] for a in cats}) >= 2:
            return True
    if any(any(rc.is_cat(a) for a in e) for e, _ in group):
        return True
    used = {rc.atom_base(a) for a in designs.atoms_of(case)}
    return any(c["kind"] == "cat" and c.get("ordered") and c["name"] in used for c in spec["cols"])


def compare_columns(ctx, full, where, labels, matrix, frame, atoms):
    matrix = np.asarray(matrix, dtype=float)
    if matrix.ndim == 1:
        matrix = matrix[:, None]
    if len(labels) != matrix.shape[1]:
        ctx.fail("label_count", full, f"{full['formula']!r} {where}: {len(labels)} labels {labels} for {matrix.shape[1]} columns", where.split(" ")[0])
        return
    if len(set(labels)) != len(labels):
        ctx.fail("label_unique", full, f"{full['formula']!r} {where}: repeated labels {labels}", where.split(" ")[0])
    for j, lab in enumerate(labels):
        try:
            want = rc.label_value(lab, frame, atoms)
        except KeyError as e:
            ctx.fail("label_meaning", full, f"{full['formula']!r} {where}: label {lab!r} cannot be read: {e}", "unreadable")
            return
        if not np.allclose(matrix[:, j], want, rtol=1e-12, atol=1e-12):
            bad = int(np.flatnonzero(~np.isclose(matrix[:, j], want))[0])
            ctx.fail("label_meaning", full, f"{full['formula']!r} {where}: column {j} labelled {lab!r} differs from what the label "
                     f"denotes (first at row {bad}: {matrix[bad, j]} vs {want[bad]})", "group" if "|" in lab else "common")
            return


def judge(ctx, case):
    from formulae import design_matrices

    if ctx.skip():
        return
    spec = case["frame"]
    formula = designs.formula_of(case)
    frame = frames.build(spec)
    atoms = designs.atoms_of(case)
    classes = ["has_group" if any(it[1][0] == "grp" for it in case["items"]) else "common_only"]
    for c in spec["cols"]:
        if c["name"] in {rc.atom_base(a) for a in atoms} and c["kind"] in ("str", "cat"):
            classes.append("dtype:" + ("ordcat" if c.get("ordered") else c["kind"]))
    if spec.get("index") is not None:
        classes.append("index:custom")
    if any(a in WIDE_NUMS for a in atoms):
        classes.append("wide_numeric_component")
    ctx.count(core.canon([formula, spec]), nontrivial(case, spec), sorted(set(classes)), sample={"formula": formula, "frame": spec},
              stratum=classes[0])
    full = dict(case, formula=formula)
    try:
        with core.Guard():
            dm = design_matrices(formula, frame)
    except Exception as e:  # pylint: disable=broad-except
        ctx.fail("raises", full, f"{formula!r} raised {type(e).__name__}: {e}", core.exc_key(e))
        return
    try:
        if dm.common is not None:
            try:
                labels = list(dm.common.as_dataframe().columns)
            except ValueError as e:
                ctx.fail("label_count", full, f"{formula!r}: common.as_dataframe() raised {e}", "common")
                labels = None
            if labels is not None:
                compare_columns(ctx, full, "common matrix", labels, dm.common.design_matrix, frame, atoms)
        if dm.group is not None:
            total = 0
            for name, term in dm.group.terms.items():
                compare_columns(ctx, full, f"group term {name}", list(term.labels), dm.group[name], frame, atoms)
                total += len(term.labels)
            if total != dm.group.design_matrix.shape[1]:
                ctx.fail("label_count", full, f"{formula!r}: group labels {total} for {dm.group.design_matrix.shape[1]} columns", "group")
        if dm.response is not None:
            compare_columns(ctx, full, "response", list(dm.response.as_dataframe().columns), dm.response.design_matrix, frame, atoms + ["y"])
    except Exception as e:  # pylint: disable=broad-except
        ctx.fail("raises", full, f"{formula!r}: inspecting labels raised {type(e).__name__}: {e}", core.exc_key(e))
        return
    # the same labels on the same frame evaluated as new data; and the original group matrix after new data with an
    # unseen group were evaluated (silent mode) still has the columns its labels say
    from formulae import config

    try:
        if dm.common is not None:
            again = dm.common.evaluate_new_data(frame)
            compare_columns(ctx, full, "common matrix on the frame as new data", list(again.as_dataframe().columns), again.design_matrix, frame, atoms)
        if dm.group is not None:
            again = dm.group.evaluate_new_data(frame)
            for name, term in dm.group.terms.items():
                compare_columns(ctx, full, f"group term {name} on the frame as new data", list(term.labels), again[name], frame, atoms)
            new = frame.iloc[: min(4, len(frame))].copy()
            for col_ in ("f", "g", "h"):
                if col_ in new.columns:
                    new[col_] = new[col_].astype(object)
                    new.iloc[0, new.columns.get_loc(col_)] = "zz"
            if "k" in new.columns:
                new.iloc[0, new.columns.get_loc("k")] = 999
            config["EVAL_UNSEEN_CATEGORIES"] = "silent"
            try:
                with core.Silence():
                    dm.group.evaluate_new_data(new)
            except Exception:  # pylint: disable=broad-except
                pass
            finally:
                config["EVAL_UNSEEN_CATEGORIES"] = "error"
            for name, term in dm.group.terms.items():
                compare_columns(ctx, full, f"group term {name} after new data with unseen groups were evaluated", list(term.labels), dm.group[name], frame, atoms)
    except Exception as e:  # pylint: disable=broad-except
        ctx.fail("raises", full, f"{formula!r}: evaluating the frame as new data raised {type(e).__name__}: {e}", "new_data:" + core.exc_key(e))
    # level order: sorted for unordered data, declared order for ordered categoricals
    for a in atoms:
        if not rc.is_cat(a):
            continue
        if a == "k":
            # a plain integer column is a factor only where it groups: its levels are in numerical order there
            try:
                with core.Guard():
                    d0 = design_matrices("y ~ (1 | k)", frame)
                groups = [str(g_) for g_ in d0.group.terms["1|k"].groups]
            except Exception as e:  # pylint: disable=broad-except
                ctx.fail("raises", dict(full, probe="y ~ (1 | k)"), f"'y ~ (1 | k)' raised {type(e).__name__}: {e}", core.exc_key(e))
                continue
            want = [str(v) for v in sorted(set(frame["k"].tolist()))]
            if groups != want:
                ctx.fail("level_order", dict(full, probe="y ~ (1 | k)"), f"'y ~ (1 | k)': groups {groups}, expected {want}", "order")
            continue
        try:
            with core.Guard():
                d0 = design_matrices(f"y ~ 0 + {a}", frame)
            labels = list(d0.common.as_dataframe().columns)
        except Exception as e:  # pylint: disable=broad-except
            ctx.fail("raises", dict(full, probe=f"y ~ 0 + {a}"), f"'y ~ 0 + {a}' raised {type(e).__name__}: {e}", core.exc_key(e))
            continue
        want = [f"{rc.atom_label_name(a)}[{l}]" for l in expected_levels(frame, spec, a)]
        if labels != want:
            ctx.fail("level_order", dict(full, probe=f"y ~ 0 + {a}"), f"'y ~ 0 + {a}': labels {labels}, expected {want}", "order")


def replay(ctx, case):
    judge(ctx, case)


def _worker(ctx, arg):
    shard, n = arg
    core.run_hypothesis(ctx, case_strategy(), judge, n, shard=shard)
    if shard < 6:
        many_groups(ctx, shard)


def many_groups(ctx, k):
    """A grouping factor with many levels (70-140) and effects of two or three columns per group: block positions are
    computed from level codes, and small integer types are not wide enough for codes times columns."""
    ng = [70, 100, 127, 128, 140, 90][k]
    n = ng * 2
    order = sorted(range(n), key=lambda i: ((i + 1) * 0.6180339887) % 1.0)
    g = ["g%03d" % (i % ng) for i in order]
    spec = {"cols": [{"name": "g", "kind": ["str", "cat"][k % 2], "values": g, **({"categories": sorted(set(g)), "ordered": False} if k % 2 else {})},
                     {"name": "f", "kind": "str", "values": [["b", "a"][(i // 3) % 2] for i in range(n)]},
                     {"name": "h", "kind": "str", "values": [["lo", "mid", "hi"][(i // 2) % 3] for i in range(n)]},
                     {"name": "k", "kind": "int", "values": [frames.INT_LEVELS[i % 3] for i in range(n)]},
                     {"name": "x", "kind": "float", "values": [round(float(v), 6) for v in frames.weyl(n, 0, k)]},
                     {"name": "z", "kind": "float", "values": [round(float(v), 6) for v in frames.weyl(n, 1, k)]},
                     {"name": "y", "kind": "float", "values": [round(float(v), 6) for v in frames.weyl(n, 5, k)]}], "index": None}
    for e in (("var", "f"), ("var", "h"), (":", ("var", "f"), ("var", "x")), ("+", ("var", "x"), ("var", "h"))):
        for lead in ("0", None):
            judge(ctx, {"items": [["+", designs._listify(("grp", lead, e, ("var", "g")))]], "response": "y", "frame": spec})


def run(ctx):
    per = 350 if ctx.tier == "quick" else 3000
    ctx.parallel(_worker, [(k, per) for k in range(core.NPROC)])
