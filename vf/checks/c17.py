"""C17 — matrix containers are internally consistent (training objects and objects derived by
one or more evaluate_new_data calls)."""
import warnings

import numpy as np
from hypothesis import strategies as st

from vf import core, frames, rich
from vf.checks import c10

PROPERTY = "C17"
RULE = (
    "cases = (design, history of up to 3 derivations): designs from the rich generator (all atom kinds incl. "
    "multi-column bs / poly effects in group items, responses numeric / categorical / y[level] / call / none); each "
    "derivation evaluates the common and the group matrix of the training object or of the previously derived object "
    "on drawn training rows, optionally with unseen groups / levels injected (silent mode); every object reached is "
    "inspected; a single-level factor (a term of width zero) or an offset term is appended to some designs; distinct = distinct (formula, frame, history); non-trivial = an object with >= 3 terms of different "
    "widths, or a derived group matrix widened by a new group, or a chain of two derivations"
)
ASSUMPTIONS = [
    "GroupEffectsMatrix has no data-frame view; its labels are not required to match a widened matrix",
    "derivations with unseen values run with EVAL_UNSEEN_CATEGORIES = 'silent' (restored afterwards)",
]

RESPONSES = ["y", "y", "y", "f", "h", "g['g1']", "u[p]", "np.abs(y)", None]


@st.composite
def case_strategy(draw):
    spec = draw(rich.frame_strategy(min_rows=8, max_rows=26, with_index=True, extra_unused=False))
    resp = draw(st.sampled_from(RESPONSES))
    d = draw(rich.design(response=resp, max_groups=3))
    if resp and rich.bases(resp) & rich.used_columns(dict(d, response=None)):
        d = dict(d, response="y")
        d["formula"] = rich.render(d)
    n = frames.nrows(spec)
    # a factor with a single level (its reduced coding has no column: a term of width zero) and offset terms
    spec["cols"].append({"name": "c1", "kind": "str", "values": ["only"] * n})
    # floats that differ only beyond the twelfth significant digit are still different levels
    spec["cols"].append({"name": "fl", "kind": "float", "values": [[0.1 + 0.2, 0.3, 1e15, 1e15 + 1][i % 4] for i in range(n)]})
    # levels that differ only in blanks around them (fixed-width files) are different levels with different labels
    spec["cols"].append({"name": "ws", "kind": "str", "values": [["north", "north ", " north", "south"][(i * 3) % 4] for i in range(n)]})
    # a level that is called like the constant column of the full-rank sum coding
    spec["cols"].append({"name": "ms", "kind": "str", "values": [["mean", "alpha", "zeta"][(i * 2 + 1) % 3] for i in range(n)]})
    long_call = "I(" + " + ".join(["x", "z"] * 14) + ")"  # a term name of more than a hundred characters
    extra = draw(st.sampled_from([None, None, None, "c1", "c1", "(c1 | g)", "offset(z)", "offset(2.5)", "offset(np.abs(x))", "C(fl)", "(1 | fl)", "ws", "C(ws)", "x:ws", "(1 | ws)", "ms", "S(ms)", "C(ms, Sum)", long_call,
                                  long_call + ":f"]))
    if extra is not None:
        trailer = " - 1" if d["formula"].rstrip().endswith("- 1") else ""
        body = d["formula"].rstrip()[: len(d["formula"].rstrip()) - len(trailer)] if trailer else d["formula"]
        d = dict(d, formula=f"{body} + {extra}{trailer}", extra_term=extra)
    used = sorted((rich.used_columns(dict(d, response=None))) & set(c10.UNSEEN))
    history = []
    for _ in range(draw(st.integers(0, 3))):
        rows = draw(st.lists(st.integers(0, n - 1), min_size=1, max_size=6))
        inject = {}
        if used and draw(st.booleans()):
            for v in draw(st.lists(st.sampled_from(used), min_size=1, max_size=2, unique=True)):
                inject[v] = sorted(draw(st.sets(st.integers(0, len(rows) - 1), min_size=1, max_size=len(rows))))
        history.append({"rows": rows, "inject": inject, "from": draw(st.sampled_from(["training", "previous", "previous"])),
                        "new_index": draw(st.sampled_from([None, None, "reversed", "offset", "strings", "repeated"])),
                        "fractional": draw(st.integers(0, 2)) == 0, "new_nan": draw(st.integers(0, 3)) == 0})
    holes = None
    numeric_used = sorted(c for c in rich.used_columns(d) if frames.column(spec, c)["kind"] == "float" and c in ("x", "z", "y", "p"))
    if numeric_used and draw(st.integers(0, 3)) == 0:
        # one observation is incomplete in a variable of the formula; another one only in a column the formula does not use
        r1 = draw(st.integers(0, n - 1))
        holes = {"column": draw(st.sampled_from(numeric_used)), "row": r1, "unused_row": (r1 + 1 + draw(st.integers(0, n - 2))) % n}
    return {"design": d, "frame": spec, "history": history, "holes": holes}


def inspect_matrix(ctx, case, where, m, kind, nrows):
    """Invariants of one CommonEffectsMatrix / GroupEffectsMatrix object."""
    x = np.asarray(m.design_matrix)
    if x.ndim != 2:
        ctx.fail("shape", case, f"{where}: design_matrix is {x.ndim}-dimensional", kind)
        return
    if x.shape[0] != nrows:
        ctx.fail("rows", case, f"{where}: {x.shape[0]} rows, expected {nrows}", kind)
    names = list(m.terms)
    if list(m.slices) != names:
        ctx.fail("slices", case, f"{where}: slice keys {list(m.slices)} are not the term names in term order {names}", kind + ":keys")
        return
    start = 0
    for name in names:
        sl = m.slices[name]
        if sl.start != start or sl.stop < sl.start or (sl.step not in (None, 1)):
            ctx.fail("slices", case, f"{where}: slice of {name} is {sl}, expected to start at {start}", kind + ":contiguous")
            return
        start = sl.stop
        try:
            sub = m[name]
        except Exception as e:  # pylint: disable=broad-except
            ctx.fail("getitem", case, f"{where}: indexing by {name!r} raised {type(e).__name__}: {e}", kind)
            return
        if not np.array_equal(np.asarray(sub), x[:, sl], equal_nan=True):
            ctx.fail("getitem", case, f"{where}: [{name!r}] is not design_matrix[:, {sl.start}:{sl.stop}]", kind)
    if start != x.shape[1]:
        ctx.fail("slices", case, f"{where}: slices cover {start} of {x.shape[1]} columns", kind + ":cover")
    for bad in ("no such term", "", "Intercept ", names[0] + " ", names[0][:-1], names[-1][1:], names[0].upper() + "_"):
        if bad in m.slices:
            continue
        try:
            m[bad]
            ctx.fail("getitem", case, f"{where}: unknown term name {bad!r} was accepted", kind + ":unknown")
        except ValueError:
            pass
        except Exception as e:  # pylint: disable=broad-except
            ctx.fail("getitem", case, f"{where}: unknown term name {bad!r} raised {type(e).__name__} instead of ValueError", kind + ":unknown_type")
    if not np.array_equal(np.asarray(m), x, equal_nan=True):
        ctx.fail("views", case, f"{where}: np.asarray() differs from design_matrix", kind)
    if hasattr(m, "as_dataframe"):
        try:
            df = m.as_dataframe()
        except Exception as e:  # pylint: disable=broad-except
            ctx.fail("views", case, f"{where}: as_dataframe() raised {type(e).__name__}: {e}", kind + ":dataframe")
            df = None
        if df is not None:
            if df.shape != x.shape or not np.array_equal(df.to_numpy(dtype=float), x.astype(float), equal_nan=True):
                ctx.fail("views", case, f"{where}: as_dataframe() holds other numbers than design_matrix", kind + ":dataframe")
            if len(set(df.columns)) != len(df.columns):
                ctx.fail("views", case, f"{where}: data-frame labels are not unique: {list(df.columns)}", kind + ":labels")
            want_cols = [l for t in m.terms.values() for l in t.labels]
            if list(df.columns) != want_cols:
                ctx.fail("views", case, f"{where}: data-frame labels {list(df.columns)} are not the labels of the terms in term order {want_cols}", kind + ":label_order")
    for fn in (str, repr):
        try:
            text = fn(m)
        except Exception as e:  # pylint: disable=broad-except
            ctx.fail("printing", case, f"{where}: {fn.__name__}() raised {type(e).__name__}: {e}", kind + ":" + type(e).__name__)
            continue
        if str(x.shape) not in text:
            ctx.fail("printing", case, f"{where}: {fn.__name__}() does not report the shape {x.shape}", kind + ":shape")


def freeze(m):
    return (np.array(m.design_matrix, copy=True), [(k, v.start, v.stop) for k, v in m.slices.items()], list(m.terms))


def same_frozen(a, m):
    b = freeze(m)
    return np.array_equal(a[0], b[0], equal_nan=True) and a[1] == b[1] and a[2] == b[2]


def judge(ctx, case):
    from formulae import config, design_matrices

    if ctx.skip():
        return
    rich.register_user_transform()
    d, spec = case["design"], case["frame"]
    formula = d["formula"]
    frame = frames.build(spec)
    ns = rich.namespace_for(frame)
    retained = len(frame)
    h_ = case.get("holes")
    if h_ and any(set(c["values"][:h_["row"]] + c["values"][h_["row"] + 1:]) != set(c["values"]) for c in spec["cols"] if c["kind"] != "float"):
        h_ = None  # the incomplete observation is the only one of some level: the design would be another one
    if h_:
        frame = frame.copy()
        frame.iloc[h_["row"], frame.columns.get_loc(h_["column"])] = np.nan
        frame["junk"] = [np.nan if i == h_["unused_row"] else float(i) for i in range(len(frame))]
        retained = len(frame) - 1  # exactly the observation that is incomplete in a variable of the formula goes
    config["EVAL_UNSEEN_CATEGORIES"] = "error"
    try:
        with core.Guard():
            dm = design_matrices(formula, frame, extra_namespace=ns)
    except Exception as e:  # pylint: disable=broad-except
        ctx.count(core.canon(case), False, ["build_failed"])
        ctx.fail("build", case, f"{formula!r} raised {type(e).__name__}: {e}", core.exc_key(e))
        return
    n = retained
    widths = set()
    for part in (dm.common, dm.group):
        if part is not None:
            widths |= {v.stop - v.start for v in part.slices.values()}
    nterms = sum(len(p.terms) for p in (dm.common, dm.group) if p is not None)
    widened = False
    # ---- the training objects -------------------------------------------------------------------------
    where = f"{formula!r} training"
    resp, common, group = dm  # tuple unpacking
    if resp is not dm.response or common is not dm.common or group is not dm.group:
        ctx.fail("views", case, f"{where}: tuple unpacking does not give (response, common, group)", "unpacking")
    rows = []
    if dm.response is not None:
        y = np.asarray(dm.response.design_matrix)
        rows.append(y.shape[0])
        if not np.array_equal(np.asarray(dm.response), y, equal_nan=True):
            ctx.fail("views", case, f"{where}: np.asarray(response) differs from design_matrix", "response")
        try:
            df = dm.response.as_dataframe()
            if not np.array_equal(df.to_numpy(dtype=float).reshape(y.shape), y.astype(float), equal_nan=True):
                ctx.fail("views", case, f"{where}: response.as_dataframe() holds other numbers", "response:dataframe")
            if len(set(df.columns)) != len(df.columns) or len(df.columns) != (1 if y.ndim == 1 else y.shape[1]):
                ctx.fail("views", case, f"{where}: response labels {list(df.columns)} for shape {y.shape}", "response:labels")
        except Exception as e:  # pylint: disable=broad-except
            ctx.fail("views", case, f"{where}: response.as_dataframe() raised {type(e).__name__}: {e}", "response:dataframe")
        for fn in (str, repr):
            try:
                if str(y.shape) not in fn(dm.response):
                    ctx.fail("printing", case, f"{where}: {fn.__name__}(response) does not report the shape {y.shape}", "response:shape")
            except Exception as e:  # pylint: disable=broad-except
                ctx.fail("printing", case, f"{where}: {fn.__name__}(response) raised {type(e).__name__}: {e}", "response")
    elif d["response"]:
        ctx.fail("views", case, f"{where}: no response matrix", "response:missing")
    for kind, m in (("common", dm.common), ("group", dm.group)):
        if m is not None:
            rows.append(np.asarray(m.design_matrix).shape[0])
            inspect_matrix(ctx, case, f"{where} {kind}", m, kind, n)
    if len(set(rows)) > 1:
        ctx.fail("rows", case, f"{where}: response / common / group have {rows} rows", "alignment")
    for fn in (str, repr):
        try:
            text = fn(dm)
            for label, m in (("Response", dm.response), ("Common", dm.common), ("Group-specific", dm.group)):
                lines = [l for l in text.splitlines() if l.strip().startswith(label + ":")]
                if m is None:
                    if lines:
                        ctx.fail("printing", case, f"{where}: {fn.__name__}(DesignMatrices) has a '{label}:' line but no such matrix", "design:line")
                    continue
                shape = str(np.asarray(m.design_matrix).shape)
                if shape not in text:
                    ctx.fail("printing", case, f"{where}: {fn.__name__}(DesignMatrices) does not report {shape}", "design:shape")
                elif lines and not any(shape in l for l in lines):
                    ctx.fail("printing", case, f"{where}: {fn.__name__}(DesignMatrices) reports another shape than {shape} on its '{label}:' line: {lines}", "design:line")
        except Exception as e:  # pylint: disable=broad-except
            ctx.fail("printing", case, f"{where}: {fn.__name__}(DesignMatrices) raised {type(e).__name__}: {e}", "design")
    # ---- derived objects --------------------------------------------------------------------------------
    frozen = {k: freeze(m) for k, m in (("common", dm.common), ("group", dm.group)) if m is not None}
    prev = {"common": dm.common, "group": dm.group}
    try:
        for step, h in enumerate(case["history"]):
            sub = {"frame": spec, "rows": h["rows"], "inject": h["inject"], "as_categorical": False, "new_index": h.get("new_index")}
            _, new = c10.new_frames(sub)
            if h.get("new_nan"):
                # a missing value in the frame being evaluated: every container still has one row per row of that frame
                for col_ in ("x", "z"):
                    if col_ in new.columns and new[col_].dtype.kind == "f":
                        new = new.copy()
                        new.iloc[0, new.columns.get_loc(col_)] = np.nan
                        break
            if h.get("fractional"):
                # a column that held whole numbers in training holds fractions now
                for col_ in ("x", "z"):
                    if col_ in new.columns and new[col_].dtype.kind in "iu" and not (h["inject"] and col_ in h["inject"]):
                        new[col_] = new[col_].astype(float) + 0.5
            config["EVAL_UNSEEN_CATEGORIES"] = "silent" if h["inject"] else "error"
            for kind in ("common", "group"):
                src = (dm.common if kind == "common" else dm.group) if h["from"] == "training" else prev[kind]
                if src is None:
                    continue
                before = freeze(src)
                w = f"{formula!r} step {step} ({kind} derived from {h['from']}, rows {h['rows']}, inject {h['inject']})"
                try:
                    with warnings.catch_warnings():
                        warnings.simplefilter("ignore")
                        with core.Guard():
                            got = src.evaluate_new_data(new)
                except Exception as e:  # pylint: disable=broad-except
                    ctx.fail("derive", case, f"{w}: evaluate_new_data raised {type(e).__name__}: {e}", kind + ":" + core.exc_key(e))
                    continue
                inspect_matrix(ctx, case, w, got, kind, len(new))
                if not same_frozen(before, src):
                    ctx.fail("aliasing", case, f"{w}: the object it was derived from changed", kind + ":source")
                if not same_frozen(frozen[kind], dm.common if kind == "common" else dm.group):
                    ctx.fail("aliasing", case, f"{w}: the training object changed", kind + ":training")
                if kind == "group" and np.asarray(got.design_matrix).shape[1] > frozen["group"][0].shape[1]:
                    widened = True
                prev[kind] = got
    finally:
        config["EVAL_UNSEEN_CATEGORIES"] = "error"
    nt = (nterms >= 3 and len(widths) >= 2) or widened or len(case["history"]) >= 2
    ctx.count(core.canon(case), nt, ["history:%d" % len(case["history"]), "response:" + str(d["response"]).split("[")[0].split("(")[0]] +
              (["widened_group_matrix"] if widened else []), sample={"formula": formula, "history": case["history"]},
              stratum="history:%d" % len(case["history"]))


def replay(ctx, case):
    judge(ctx, case)


def _kf_level_named_mean(case, clause, detail):
    """KF-C17-1: under the full-rank sum coding the constant column is labelled `[mean]`; a factor that has a level called
    `mean` which is kept gets that label twice.  Only this pair of labels, only for the sum-coded term on `ms`."""
    import ast
    import collections

    if clause != "views" or "labels are not unique: " not in detail or case["design"].get("extra_term") not in ("S(ms)", "C(ms, Sum)"):
        return False
    try:
        labels = ast.literal_eval(detail.split("labels are not unique: ", 1)[1])
    except (ValueError, SyntaxError):
        return False
    twice = {l: c for l, c in collections.Counter(labels).items() if c > 1}
    return twice == {case["design"]["extra_term"] + "[mean]": 2}


KNOWN_CLASSES = {"sum_coded_level_named_mean": _kf_level_named_mean}


def _worker(ctx, arg):
    shard, n = arg
    core.run_hypothesis(ctx, case_strategy(), judge, n, shard=shard)


def run(ctx):
    per = 250 if ctx.tier == "quick" else 6000
    ctx.parallel(_worker, [(k, per) for k in range(core.NPROC)])
