"""C05 — group-specific blocks: group indicators x effect columns, lme4 intercept rules.

Clause A (block structure, any frame): the columns of every group-specific term are, in order,
group cell (sorted levels; cells of g1:g2 lexicographic, first factor slowest) x effect column,
each equal to the effect column on the rows of that cell and 0 elsewhere; `groups` names the cells.
Clause B (coding rule, fully crossed frames): per grouping factor, the stacked blocks are linearly
independent and span J (.) R_e, the row-wise Kronecker product of the complete group indicators
with the complete-indicator coding of the effect family (plus the constant with a group intercept).
"""
import itertools

import numpy as np
from hypothesis import strategies as st

from vf import core, designs, frames
from vf import refalgebra as ra
from vf import refcoding as rc

PROPERTY = "C05"
RULE = (
    "cases = (formula with 1-3 group items, frame): effect expressions = intercept only / numeric / categorical / "
    "scale / poly / interactions / sums, with and without `0 +`; grouping expressions = g, g:s, g + s, g/s, C(k), C(g), C(s); "
    "frames = replicated complete factorials (both clauses) or arbitrary frames (clause A); exhaustive part = all "
    "effect families of <= 2 terms over f h x z x {g, g:s} x group intercept; distinct = distinct (formula, frame); "
    "non-trivial = an effect with a categorical factor and no (1|g), or an interaction effect, or two effect terms "
    "sharing a factor, or a grouping expression that is not a single plain factor"
)
ASSUMPTIONS = [
    "clause B is judged only on replicated complete factorials with numeric columns in general position",
    "numerical rank: SVD of column-normalised matrices, tolerance 1e-8 relative",
    "effect families with two terms over the same set of variables are not generated",
]

CAT_E = ("f", "h", "C(h, Sum)", "S(f)")
NUM_E = ("x", "z", "scale(x)", "poly(x, 2)")
GFACTORS = ("g", "s", "C(k)", "k", "C(s)", "C(g)", (":", ("var", "g"), ("var", "s")), ("+", ("var", "g"), ("var", "s")),
            ("/", ("var", "g"), ("var", "s")), (":", ("var", "s"), ("var", "g")))


def frame_of(case):
    if "factorial" in case:
        f = case["factorial"]
        return frames.factorial_spec(f["levels"], f["reps"], f.get("seed", 0), f.get("catkinds"))
    return case["frame"]


def cells_of(factor, frame):
    """Reference cell names and indicator matrix of a grouping term (tuple of atoms)."""
    per = []
    for a in factor:
        vals = frame[rc.atom_base(a)].tolist()
        col = frame[rc.atom_base(a)]
        if hasattr(col.dtype, "ordered") and col.dtype.ordered:  # a declared order is respected, also through C()
            lv = list(col.dtype.categories)
        else:
            lv = sorted(set(vals))
        per.append((rc.atom_label_name(a), lv, vals))
    names, cols = [], []
    for combo in itertools.product(*[p[1] for p in per]):
        names.append(":".join(f"{p[0]}[{l}]" for p, l in zip(per, combo)))
        ind = np.ones(len(frame))
        for p, l in zip(per, combo):
            ind = ind * np.array([v == l for v in p[2]], dtype=float)
        cols.append(ind)
    plain = [":".join(str(l) for l in combo) for combo in itertools.product(*[p[1] for p in per])]
    return names, plain, np.column_stack(cols)


def nlevels(frame, atom):
    return len(set(frame[rc.atom_base(atom)].tolist()))


def width(atom):
    return rc.NUM_WIDTH.get(atom, 1)


def closure_dim(effects, has_int, frame):
    """Dimension of the space spanned by the complete coding of an effect family (per group cell)."""
    by_num = {}
    for t in effects:
        cats = frozenset(a for a in t if rc.is_cat(a))
        nums = frozenset(a for a in t if not rc.is_cat(a))
        by_num.setdefault(nums, set()).add(cats)
    if has_int:
        by_num.setdefault(frozenset(), set()).add(frozenset())
    dim = 0
    for nums, catsets in by_num.items():
        w = 1
        for a in nums:
            w *= width(a)
        closed = set()
        for c in catsets:
            for k in range(len(c) + 1):
                for sub in itertools.combinations(sorted(c), k):
                    closed.add(frozenset(sub))
        for sub in closed:
            d = 1
            for a in sub:
                d *= nlevels(frame, a) - 1
            dim += w * d
    return dim


def simple_rule_columns(effects, has_int, frame):
    """Columns per group cell under 'reduced iff the group intercept is present'."""
    n = 1 if has_int else 0
    for t in effects:
        c = 1
        for a in t:
            c *= (nlevels(frame, a) - (1 if has_int else 0)) if rc.is_cat(a) else width(a)
        n += c
    return n


def families(case):
    """grouping term (tuple of atoms) -> (effect terms without the intercept, has group intercept)"""
    _, group = designs.structure_of(case)
    out = {}
    for e, f in group:
        fam = out.setdefault(tuple(f), [[], False])
        if e == ():
            fam[1] = True
        else:
            fam[0].append(tuple(e))
    return out


def nontrivial(case):
    fams = families(case)
    for f, (effects, has_int) in fams.items():
        if len(f) > 1 or f[0] not in ("g", "s", "k"):
            return True
        if any(len(t) > 1 for t in effects):
            return True
        if not has_int and any(rc.is_cat(a) for t in effects for a in t):
            return True
        bases = [rc.atom_base(a) for t in effects for a in t]
        if len(bases) != len(set(bases)):
            return True
    return False


def judge(ctx, case):
    from formulae import design_matrices

    if ctx.skip():
        return
    spec = frame_of(case)
    frame = frames.build(spec)
    formula = designs.formula_of(case)
    atoms = designs.atoms_of(case)
    fams = families(case)
    kind = "factorial" if "factorial" in case else "arbitrary"
    classes = ["frame:" + kind]
    for f, (effects, has_int) in fams.items():
        classes.append("factor:" + ("interaction" if len(f) > 1 else ("call" if "(" in f[0] else "plain")))
        classes.append("group_intercept:" + ("yes" if has_int else "no"))
        if any(rc.is_cat(a) for t in effects for a in t):
            classes.append("effect:categorical")
        if any(not rc.is_cat(a) for t in effects for a in t):
            classes.append("effect:numeric")
        if any(len(t) > 1 for t in effects):
            classes.append("effect:interaction")
    ctx.count(core.canon([formula, spec if kind == "arbitrary" else case["factorial"]]), nontrivial(case), sorted(set(classes)),
              sample={"formula": formula, "frame": ("factorial " + core.canon(case["factorial"])) if kind == "factorial" else spec},
              stratum="frame:" + kind)
    full = dict(case, formula=formula)
    try:
        with core.Guard():
            dm = design_matrices(formula, frame)
    except Exception as e:  # pylint: disable=broad-except
        ctx.fail("raises", full, f"{formula!r} raised {type(e).__name__}: {e}", core.exc_key(e))
        return
    if dm.group is None:
        if fams:
            ctx.fail("structure", full, f"{formula!r}: no group-specific matrix", "missing")
        return
    z = np.asarray(dm.group.design_matrix, dtype=float)
    # ---- clause A ------------------------------------------------------------------------------------
    start = 0
    by_factor = {}
    for name, term in dm.group.terms.items():
        sl = dm.group.slices[name]
        block = z[:, sl]
        if sl.start != start:
            ctx.fail("structure", full, f"{formula!r}: slice of {name} starts at {sl.start}, expected {start}", "slices")
        start = sl.stop
        factor = tuple(c.name for c in term.factor.components)
        try:
            cell_labels, cell_names, j = cells_of(_atoms_named(factor, atoms), frame)
        except KeyError:
            ctx.fail("structure", full, f"{formula!r}: grouping factor {factor} of {name} is not made of atoms of the formula", "factor")
            continue
        if list(term.groups) != cell_names:
            ctx.fail("structure", full, f"{formula!r}: groups of {name} are {term.groups}, expected {cell_names}", "groups")
            continue
        ng = len(cell_names)
        if block.shape[1] % ng:
            ctx.fail("structure", full, f"{formula!r}: {name} has {block.shape[1]} columns for {ng} groups", "width")
            continue
        p = block.shape[1] // ng
        elabels = ["1"] if type(term.expr).__name__ == "Intercept" else list(term.expr.labels)
        if len(elabels) != p:
            ctx.fail("structure", full, f"{formula!r}: {name} has {p} columns per group but {len(elabels)} effect labels", "width")
            continue
        want_labels = [f"{el}|{cl}" for cl in cell_labels for el in elabels]
        if list(term.labels) != want_labels:
            ctx.fail("structure", full, f"{formula!r}: labels of {name} are {term.labels}, expected {want_labels}", "labels")
            continue
        ok = True
        for l in range(ng):
            for k in range(p):
                el = elabels[k]
                try:
                    ev = np.ones(len(frame)) if el == "1" else rc.label_value(el, frame, atoms)
                except KeyError as e:
                    ctx.fail("block", full, f"{formula!r}: effect label {el!r} of {name} cannot be read: {e}", "unreadable")
                    ok = False
                    break
                want = ev * j[:, l]
                if not np.allclose(block[:, l * p + k], want, rtol=1e-9, atol=1e-9):
                    ctx.fail("block", full, f"{formula!r}: column {l * p + k} of {name} ({want_labels[l * p + k]}) is not the effect "
                             f"column on the rows of its group and 0 elsewhere", "values")
                    ok = False
                    break
            if not ok:
                break
        by_factor.setdefault(_atoms_named(factor, atoms), []).append(block)
    if start != z.shape[1]:
        ctx.fail("structure", full, f"{formula!r}: slices cover {start} of {z.shape[1]} columns", "slices")
    # ---- clause B ------------------------------------------------------------------------------------
    if kind != "factorial":
        return
    for f, (effects, has_int) in fams.items():
        blocks = by_factor.get(tuple(f))
        if not blocks:
            continue
        for t in effects:
            tc = rc.term_complete(t, frame)
            if rc.rank(tc) < tc.shape[1]:
                ctx.classes["unjudged:data_not_in_general_position"] += 1
                return
        zf = np.column_stack(blocks)
        _, _, j = cells_of(tuple(f), frame)
        re = rc.family_complete(effects, has_int, frame)
        r = rc.khatri_rao_rows(j, re)
        indep, same, rx, rr, rxr = rc.span_report(zf, r)
        ncells = int((np.abs(j).sum(axis=0) > 0).sum())
        if rr != ncells * rc.model_dim(effects, has_int, frame, width):
            ctx.classes["unjudged:data_not_in_general_position"] += 1
            continue
        facname = ":".join(f)
        info = dict(full, factor=facname, observed_columns_per_cell=zf.shape[1] / max(1, j.shape[1]), observed_rank=rx)
        if not indep:
            ctx.fail("coding", info, f"{formula!r}: the {zf.shape[1]} columns of grouping factor {facname} have rank {rx}; "
                     f"group-by-cell space has dimension {rr}", "dependent")
        elif not same:
            ctx.fail("coding", info, f"{formula!r}: columns of grouping factor {facname} span dimension {rx}, "
                     f"group-by-cell means of the effect expression span {rr} (joint {rxr})", "too_small" if rx < rr else "other")


def _atoms_named(names, atoms):
    out = []
    for n in names:
        hit = [a for a in atoms if rc.atom_label_name(a) == n]
        if not hit:
            raise KeyError(n)
        out.append(hit[0])
    return tuple(out)


def replay(ctx, case):
    judge(ctx, case)


# ---- KF-C05-1: effects are coded 'reduced iff (1|factor) is present' -----------------------------------
def _kf_simple_rule(case, clause, detail):  # pylint: disable=unused-argument
    """The family of effects of the reported grouping factor is one where the simplified rule gives a
    different number of columns than the dimension of the group-by-cell space."""
    frame = frames.build(frame_of(case))
    fams = families(case)
    for f, (effects, has_int) in fams.items():
        if ":".join(f) != case.get("factor"):
            continue
        simple = simple_rule_columns(effects, has_int, frame)
        if simple == closure_dim(effects, has_int, frame):
            return False
        # only the recorded deviation is known: the blocks are as wide as the simplified rule makes them.  Any other
        # width in the same family of inputs is a different violation and is reported.
        seen = case.get("observed_columns_per_cell")
        return seen is None or abs(seen - simple) < 1e-9
    return False


KNOWN_CLASSES = {"simple_group_coding_rule": _kf_simple_rule}


# ---- domains ---------------------------------------------------------------------------------------------
def _small_cases():
    vars_ = ["f", "h", "x", "z"]
    allterms = [p for k in (1, 2) for c in itertools.combinations(vars_, k) for p in itertools.permutations(c)]
    fac = {"levels": {"f": 2, "h": 3, "g": 3, "s": 2}, "reps": 4, "seed": 2, "catkinds": {}}
    for k in (1, 2):
        for ts in itertools.permutations(allterms, k):
            if len(set(frozenset(t) for t in ts)) < len(ts):
                continue
            for lead in (None, "0"):
                for g in (("var", "g"), (":", ("var", "g"), ("var", "s"))):
                    e = None
                    for t in ts:
                        tt = None
                        for a in t:
                            tt = ("var", a) if tt is None else (":", tt, ("var", a))
                        e = tt if e is None else ("+", e, tt)
                    yield {"items": [["+", designs._listify(("grp", lead, e, g))]], "response": "y", "factorial": fac}
            # the same effects distributed over two factors of which only one has a group intercept of its own
            for which in ("g", "s"):
                yield {"items": [["+", designs._listify(("grp", "0", e, ("+", ("var", "g"), ("var", "s"))))],
                                 ["+", designs._listify(("grp", "1", None, ("var", which)))]], "response": "y", "factorial": fac}
                yield {"items": [["+", designs._listify(("grp", "1", None, ("var", which)))],
                                 ["+", designs._listify(("grp", "0", e, ("+", ("var", "s"), ("var", "g"))))]], "response": "y", "factorial": fac}


def _small_worker(ctx, arg):
    shard, n = arg
    for i, case in enumerate(_small_cases()):
        if i % n == shard:
            judge(ctx, case)


@st.composite
def random_case(draw):
    items = draw(designs.rhs_items(CAT_E, NUM_E, GFACTORS, max_items=3, max_leaves=3))
    if not any(it[1][0] == "grp" for it in items):
        lead = draw(st.sampled_from([None, "0", "1"]))
        e = draw(designs.effect_tree(CAT_E + NUM_E, 2)) if lead != "1" else None
        items.append(["+", designs._listify(("grp", lead, e, ("var", "g")))])
        common, group, empty = ra.rhs([(s, designs.tup(it)) for s, it in items])
        by = {}
        for ee, ff in group:
            by.setdefault(frozenset(ff), []).append(ee)
        if empty or not all(designs.distinct_factor_sets([t for t in es if t]) for es in by.values()):
            items = [["+", designs._listify(("grp", None, ("var", "x"), ("var", "g")))]]
    case = {"items": items, "response": "y"}
    if draw(st.integers(0, 2)) > 0:
        atoms = designs.atoms_of(case)
        cats = sorted({rc.atom_base(a) for a in atoms if rc.is_cat(a)})
        levels = {c: draw(st.integers(2, 3)) for c in cats}
        need = 1
        for b in ("x", "z"):
            ws = [width(a) for a in atoms if not rc.is_cat(a) and rc.atom_base(a) == b]
            if ws:
                need *= 1 + max(ws)
        kinds = {c: draw(st.sampled_from(["str", "cat", "ordcat"])) for c in cats if c != "k"}
        case["factorial"] = {"levels": levels, "reps": max(2, need) + draw(st.integers(0, 1)), "seed": draw(st.integers(0, 9)), "catkinds": kinds}
    else:
        case["frame"] = draw(frames.random_frame(cat_vars=("f", "g", "h", "s"), num_vars=("x", "z"), int_vars=("k",), min_rows=6, max_rows=30,
                                                 max_levels=3, extra_unused=False))
    return case


def _random_worker(ctx, arg):
    shard, n = arg
    core.run_hypothesis(ctx, random_case(), judge, n, shard=shard)


def run(ctx):
    ns = core.NPROC
    ctx.parallel(_small_worker, [(k, ns) for k in range(ns)])
    ctx.exhaustive["effect families of <= 2 terms over f h x z x {g, g:s} x group intercept"] = {"complete": True}
    per = 200 if ctx.tier == "quick" else 6000
    ctx.parallel(_random_worker, [(k, per) for k in range(ns)])
