"""C11 — name resolution order and evaluation environment."""
import itertools
import types

import numpy as np
import pandas as pd
from hypothesis import strategies as st

from vf import core

PROPERTY = "C11"
RULE = (
    "cases = (role, name, set of defining scopes, env depth): a probe name used as call argument, as callee, as head of "
    "a dotted callee (one and two attribute steps) and back-quoted (also a name with a space); every subset of {frame "
    "column, built-in table, caller locals, caller globals, extra_namespace} that can define it (2^5 for arguments, 2^4 "
    "for callees), each scope binding a distinct sentinel that also encodes the stack level; callers synthesised with "
    "exec, nested 4 deep, each with its own globals dict; env = 0..3 plus depths beyond the stack; Hypothesis adds "
    "formulas with several probe names at once; distinct = distinct configuration; non-trivial = >= 2 scopes define the name"
)
ASSUMPTIONS = [
    "built-in membership is obtained by putting a sentinel under the probe name into the public TRANSFORMS registry for "
    "the duration of the case (removed afterwards)",
    "callers are function scopes; class bodies, comprehensions and generators as callers are not enumerated",
]

N = 5
SCOPES = ["data", "builtin", "locals", "globals", "extra"]
BASE = {"data": 2.0, "builtin": 3.0, "locals": 5.0, "globals": 7.0, "extra": 11.0}
DEPTH = 4
NONE_MARK = -7.0  # what probe() returns for None: a name bound to None is bound

SRC = """
def level{i}(formula, data, env, extra, localvals):
    {locals_line}
    return {call}
"""


def probe(v=None):
    if isinstance(v, (pd.Series, np.ndarray)):
        return np.asarray(v, dtype=float)
    if v is None:
        return np.ones(N) * NONE_MARK
    return np.ones(N) * float(v)


def sentinel(scope, level=0):
    return BASE[scope] + (100.0 * level if scope in ("locals", "globals") else 0.0)


def make_value(role, v):
    if role in ("arg", "bq", "bq_space"):
        return v

    def mk(mult):
        def fn(x, mult=mult):
            return np.asarray(x, dtype=float) * mult

        return fn

    if role == "callee":
        return mk(v)
    # every attribute step leads to a different function, so a skipped step is visible
    return types.SimpleNamespace(fn=mk(v), sub=types.SimpleNamespace(fn=mk(v + 0.5), deep=types.SimpleNamespace(fn=mk(v + 0.25))))


def formula_piece(role, name):
    return {"arg": f"probe({name})", "bq": f"probe(`{name}`)", "bq_space": f"probe(`{name}`)", "callee": f"{name}(x)",
            "dotted1": f"{name}.fn(x)", "dotted2": f"{name}.sub.fn(x)", "dotted3": f"{name}.sub.deep.fn(x)"}[role]


def run_config(items, env):
    """items: list of (role, name, subset).  Returns (matrix or exception, expected per item)."""
    from formulae import design_matrices
    from formulae import transforms

    data = pd.DataFrame({"y": np.arange(N, dtype=float), "x": np.arange(N, dtype=float) + 1})
    extra = {"probe": probe}
    added = []
    # callers live in modules of their own; some of them are called like the package (formulae_tools, formulaeX)
    globs = [dict(design_matrices=design_matrices, np=np, __name__=["caller_module", "formulae_tools", "analysis", "formulaeX"][i_ % 4]) for i_ in range(DEPTH)]
    local_lines = [[] for _ in range(DEPTH)]
    localvals = [dict() for _ in range(DEPTH)]
    try:
        for role, name, subset in items:
            if "data" in subset:
                data[name] = sentinel("data")
            if "builtin" in subset:
                transforms.TRANSFORMS[name] = make_value(role, sentinel("builtin"))
                added.append(name)
            if "extra" in subset:
                extra[name] = make_value(role, sentinel("extra"))
            for lvl in range(DEPTH):
                if "globals" in subset:
                    globs[lvl][name] = make_value(role, sentinel("globals", lvl))
                if "locals" in subset:
                    local_lines[lvl].append(f"{name} = localvals[{lvl}][{name!r}]")
                    localvals[lvl][name] = make_value(role, sentinel("locals", lvl))
        # the index of the frame is called like a name that is not a column (what set_index / groupby leave behind): an index
        # is a row label, not one of the five scopes, so the name stays undefined or comes from where the statement says
        not_columns = [name for _, name, subset in items if "data" not in subset]
        if not_columns:
            data.index = pd.Index(np.arange(N, dtype=float) + 100.0, name=not_columns[0])
        for lvl in range(DEPTH):
            call = "design_matrices(formula, data, env=env, extra_namespace=extra)" if lvl == 0 else f"level{lvl - 1}(formula, data, env, extra, localvals)"
            src = SRC.format(i=lvl, locals_line="; ".join(local_lines[lvl]) or "pass", call=call)
            exec(src, globs[lvl])  # pylint: disable=exec-used
            if lvl + 1 < DEPTH:
                globs[lvl + 1][f"level{lvl}"] = globs[lvl][f"level{lvl}"]
        pieces = []
        for r, n, sub in items:
            pieces.append(formula_piece(r, n))
            if r not in ("arg", "bq", "bq_space") and "data" in sub:
                pieces.append(n if " " not in n else f"`{n}`")  # the column itself, so that it is part of the frame the call sees
        formula = "y ~ 0 + " + " + ".join(pieces)
        try:
            with core.Guard():
                dm = globs[DEPTH - 1][f"level{DEPTH - 1}"](formula, data, env, extra, localvals)
            got = np.asarray(dm.common.design_matrix, dtype=float)
        except Exception as e:  # pylint: disable=broad-except
            got = e
        return formula, got
    finally:
        for name in added:
            transforms.TRANSFORMS.pop(name, None)


def expected(role, subset, env):
    order = [s for s in SCOPES if s in subset and not (s == "data" and role not in ("arg", "bq", "bq_space"))]
    if not order:
        return None
    first = order[0]
    v = sentinel(first, env)
    if role in ("arg", "bq", "bq_space"):
        return np.ones(N) * v
    return (np.arange(N, dtype=float) + 1) * (v + {"dotted2": 0.5, "dotted3": 0.25}.get(role, 0.0))


def judge_special(ctx, case):
    from formulae import design_matrices

    kind = case["kind"]
    ctx.count(core.canon(case), True, ["special:" + kind], stratum="special")
    data = pd.DataFrame({"y": np.arange(N, dtype=float), "x": np.arange(N, dtype=float) + 1})
    g = {"design_matrices": design_matrices, "np": np}
    extra = {"probe": probe}
    local_line = "pass"
    if kind == "none_value":
        # the first defining scope binds None, a later one a number: None is what the call must receive
        first, later = case["first"], case["later"]
        formula = "y ~ 0 + probe(opt)"
        for scope, val in ((first, None), (later, 5.0)):
            if scope == "locals":
                local_line = "opt = localval"
                localval = val
            elif scope == "globals":
                g["opt"] = val
            else:
                extra["opt"] = val
        if "locals" not in (first, later):
            localval = None
        want = np.ones(N) * NONE_MARK
    elif kind == "encoding_named_column":
        name = case["name"]
        data[name] = 2.5
        if case["also_extra"]:
            extra[name] = 11.0
        formula = f"y ~ 0 + probe({name})" if not case["keyword"] else f"y ~ 0 + probe(v={name})"
        localval = None
        want = np.ones(N) * 2.5
    else:  # response side
        role, subset = case["role"], case["subset"]
        val = {"locals": 5.0, "globals": 7.0, "extra": 11.0}
        first = [sc for sc in ("locals", "globals", "extra") if sc in subset][0]
        localval = None
        for sc in subset:
            obj = val[sc] if role == "arg" else (lambda v: (lambda a: np.asarray(a, dtype=float) * v))(val[sc])
            if sc == "locals":
                local_line = "zeta = localval"
                localval = obj
            elif sc == "globals":
                g["zeta"] = obj
            else:
                extra["zeta"] = obj
        formula = "probe(zeta) ~ 1" if role == "arg" else "zeta(x) ~ 1"
        want = np.ones(N) * val[first] if role == "arg" else data["x"].to_numpy() * val[first]
    exec(f"def caller(formula, data, extra, localval):\n    {local_line}\n    return design_matrices(formula, data, extra_namespace=extra)\n", g)  # pylint: disable=exec-used
    try:
        with core.Guard():
            dm = g["caller"](formula, data, extra, localval)
        m = dm.response if kind == "response_side" else dm.common
        got = np.asarray(m.design_matrix, dtype=float).reshape(N, -1)[:, 0]
    except Exception as e:  # pylint: disable=broad-except
        ctx.fail("resolution", case, f"{formula!r} ({kind}: {case}) raised {type(e).__name__}: {e}", kind + ":" + core.exc_key(e))
        return
    if not np.allclose(got, want):
        ctx.fail("resolution", case, f"{formula!r} ({kind}: {case}): the call received {got[0]} instead of {want[0]}", kind)


def judge_dotted_first_match(ctx, case):
    """`zeta.fn(x)`: the first scope that defines `zeta` wins also when its object has no `fn`; a later scope whose `zeta`
    does have one must not be used instead (attribute access happens on the first match)."""
    from formulae import design_matrices
    from formulae import transforms

    first, later = case["first"], case["later"]
    ctx.count(core.canon(case), True, ["special:dotted_first_match"], stratum="special")
    data = pd.DataFrame({"y": np.arange(N, dtype=float), "x": np.arange(N, dtype=float) + 1})
    without = types.SimpleNamespace(other=lambda a: np.asarray(a, dtype=float) * 2)
    with_fn = types.SimpleNamespace(fn=lambda a: np.asarray(a, dtype=float) * 5)
    g = {"design_matrices": design_matrices, "np": np}
    extra = {}
    local_line, localval = "pass", None
    added = False
    try:
        for scope, obj in ((first, without), (later, with_fn)):
            if scope == "builtin":
                transforms.TRANSFORMS["zeta"] = obj
                added = True
            elif scope == "locals":
                local_line, localval = "zeta = localval", obj
            elif scope == "globals":
                g["zeta"] = obj
            else:
                extra["zeta"] = obj
        exec(f"def caller(formula, data, extra, localval):\n    {local_line}\n    return design_matrices(formula, data, extra_namespace=extra)\n", g)  # pylint: disable=exec-used
        try:
            with core.Guard():
                dm = g["caller"]("y ~ 0 + zeta.fn(x)", data, extra, localval)
        except Exception:  # pylint: disable=broad-except
            return
        got = np.asarray(dm.common.design_matrix, dtype=float).reshape(N, -1)[:, 0]
        ctx.fail("resolution", case, f"'y ~ 0 + zeta.fn(x)': zeta of {first} (the first match) has no attribute fn, but the call was evaluated "
                 f"(column starts with {got[0]}: the zeta of {later} was used)", "dotted_first_match")
    finally:
        if added:
            transforms.TRANSFORMS.pop("zeta", None)


def judge_closure(ctx, case):
    """The frame selected by env is a nested function (inner def or lambda, with or without a captured variable): the
    locals of the functions around it are not its locals.  A name that is only a local of an enclosing (or calling)
    function is undefined; if the selected frame's globals or extra_namespace define it, they win."""
    from formulae import design_matrices

    ctx.count(core.canon(case), True, ["special:closure"], stratum="special")
    data = pd.DataFrame({"y": np.arange(N, dtype=float), "x": np.arange(N, dtype=float) + 1})
    role, where, shape, env = case["role"], case["where"], case["shape"], case["env"]
    val = {"outer": 99.0, "globals": 7.0, "extra": 11.0}

    def obj(v):
        return v if role == "arg" else (lambda a, v=v: np.asarray(a, dtype=float) * v)

    g = {"design_matrices": design_matrices, "np": np}
    extra = {"probe": probe}
    if where == "globals":
        g["zeta"] = obj(val["globals"])
    elif where == "extra":
        extra["zeta"] = obj(val["extra"])
    call = "design_matrices(formula, data, env=env, extra_namespace=extra)"
    if env == 1:  # one more plain frame between the nested function and the library
        g["helper"] = None
        exec(f"def helper(formula, data, env, extra):\n    return {call}\n", g)  # pylint: disable=exec-used
        call = "helper(formula, data, env, extra)"
    captured = "captured + 0.0, " if case["captures"] else ""
    if shape == "def":
        body = f"    def inner(formula, data, env, extra):\n        return ({captured}{call})[-1]\n"
    else:
        body = f"    inner = lambda formula, data, env, extra: ({captured}{call})[-1]\n"
    src = f"def outer(formula, data, env, extra, zeta_value):\n    zeta = zeta_value\n    captured = 1.0\n{body}    return inner(formula, data, env, extra)\n"
    src = src.replace(f"({call})[-1]", call)
    exec(src, g)  # pylint: disable=exec-used
    formula = "y ~ 0 + probe(zeta)" if role == "arg" else "y ~ 0 + zeta(x)"
    try:
        with core.Guard():
            dm = g["outer"](formula, data, env, extra, obj(val["outer"]))
        got = np.asarray(dm.common.design_matrix, dtype=float).reshape(N, -1)[:, 0]
    except Exception as e:  # pylint: disable=broad-except
        if where is not None:
            ctx.fail("resolution", case, f"{formula!r} (closure: {case}) raised {type(e).__name__}: {e}", "closure:" + core.exc_key(e))
        return
    if where is None:
        ctx.fail("undefined", case, f"{formula!r}: zeta is only a local of the function around the selected frame, but the design was built "
                 f"(column starts with {got[0]})", "closure:resolved")
        return
    want = np.ones(N) * val[where] if role == "arg" else data["x"].to_numpy() * val[where]
    if not np.allclose(got, want):
        ctx.fail("resolution", case, f"{formula!r} (closure: {case}): got {got[0]}, expected {want[0]} from {where}", "closure")


SHADOWED = {"I": "y ~ 0 + I(x)", "offset": "y ~ 0 + offset(x)", "scale": "y ~ 0 + scale(x)", "center": "y ~ 0 + center(x)", "C": "y ~ 0 + C(k)"}


def judge_shadow(ctx, case):
    """A user object named like a built-in never wins over the built-in: neither when the design is built nor when new
    data are evaluated."""
    from formulae import design_matrices

    name, subset = case["name"], case["subset"]
    ctx.count(core.canon(case), True, ["shadow:" + name], stratum="shadow")
    data = pd.DataFrame({"y": np.arange(N, dtype=float), "x": np.arange(N, dtype=float) + 1, "k": [1, 2, 1, 2, 1]})
    new = pd.DataFrame({"x": [10.0, 20.0, 40.0], "k": [2, 1, 2]})

    def user(*a, **k):  # what a shadowing user function would return: visibly not the built-in's result
        return np.asarray(a[0], dtype=float) * 0 - 99.0

    g = {"design_matrices": design_matrices, "np": np}
    extra = {}
    lines = "pass"
    if "globals" in subset:
        g[name] = user
    if "extra" in subset:
        extra[name] = user
    if "locals" in subset:
        lines = f"{name} = shadow"
    exec(f"def caller(formula, data, extra, shadow):\n    {lines}\n    return design_matrices(formula, data, extra_namespace=extra)\n", g)  # pylint: disable=exec-used
    formula = SHADOWED[name]
    ref_g = {"design_matrices": design_matrices}
    exec("def caller(formula, data):\n    return design_matrices(formula, data)\n", ref_g)  # pylint: disable=exec-used
    try:
        with core.Guard():
            want = ref_g["caller"](formula, data)
            want_new = np.asarray(want.common.evaluate_new_data(new).design_matrix, dtype=float)
            got = g["caller"](formula, data, extra, user)
            got_train = np.asarray(got.common.design_matrix, dtype=float)
            got_new = np.asarray(got.common.evaluate_new_data(new).design_matrix, dtype=float)
    except Exception as e:  # pylint: disable=broad-except
        ctx.fail("shadow", case, f"{formula!r} with a user object named {name} in {subset} raised {type(e).__name__}: {e}", core.exc_key(e))
        return
    if not np.array_equal(got_train, np.asarray(want.common.design_matrix, dtype=float)):
        ctx.fail("shadow", case, f"{formula!r}: a user object named {name} in {subset} changed the design (built-ins come first)", "training")
    if got_new.shape != want_new.shape or not np.array_equal(got_new, want_new):
        ctx.fail("shadow", case, f"{formula!r}: a user object named {name} in {subset} changed the evaluation of new data (built-ins come first)", "new_data")


def judge(ctx, case):
    if ctx.skip():
        return
    if case.get("kind") == "shadow":
        judge_shadow(ctx, case)
        return
    if case.get("kind") in ("none_value", "encoding_named_column", "response_side"):
        judge_special(ctx, case)
        return
    if case.get("kind") == "closure":
        judge_closure(ctx, case)
        return
    if case.get("kind") == "dotted_first_match":
        judge_dotted_first_match(ctx, case)
        return
    items = [(r, n, tuple(s)) for r, n, s in case["items"]]
    env = case["env"]
    nt = any(len(s) >= 2 for _, _, s in items)
    ctx.count(core.canon(case), nt, ["env:%s" % env, "names:%d" % len(items)] + ["role:" + r for r, _, _ in items], stratum="role:" + items[0][0])
    formula, got = run_config(items, env)
    full = dict(case, formula=formula)
    if env >= 50:
        if not isinstance(got, ValueError):
            ctx.fail("env", full, f"{formula!r} with env={env} (deeper than the call stack): " +
                     ("accepted" if not isinstance(got, Exception) else f"raised {type(got).__name__}: {got}"), "too_deep")
        return
    wants = [expected(r, s, env) for r, _, s in items]
    if any(w is None for w in wants):
        if not isinstance(got, Exception):
            undefined = [n for (r, n, s), w in zip(items, wants) if w is None]
            ctx.fail("undefined", full, f"{formula!r}: {undefined} are defined in no scope but the design was built: {got[0].tolist()}", "resolved")
        elif not isinstance(got, (KeyError, AttributeError, NameError)):
            ctx.fail("undefined", full, f"{formula!r}: an undefined name raised {type(got).__name__}: {got}", "exception_type:" + type(got).__name__)
        return
    if isinstance(got, Exception):
        ctx.fail("resolution", full, f"{formula!r} env={env} scopes {[s for _, _, s in items]} raised {type(got).__name__}: {got}", "raises:" + core.exc_key(got))
        return
    extra_cols = sum(1 for r, _, sub in items if r not in ("arg", "bq", "bq_space") and "data" in sub)
    if got.shape != (N, len(items) + extra_cols):
        ctx.fail("resolution", full, f"{formula!r}: matrix has shape {got.shape}", "shape")
        return
    col = 0
    for (role, name, subset), want in zip(items, wants):
        j = col
        col += 2 if (role not in ("arg", "bq", "bq_space") and "data" in subset) else 1
        if not np.allclose(got[:, j], want):
            def owner(v):
                for s in SCOPES:
                    for lvl in range(DEPTH):
                        if abs(v - sentinel(s, lvl)) < 1e-9:
                            return f"{s}" + (f"(level {lvl})" if s in ("locals", "globals") else "")
                return "?"
            seen = got[0, j] if role in ("arg", "bq", "bq_space") else got[0, j] / 1.0
            first = [s for s in SCOPES if s in subset and not (s == "data" and role not in ("arg", "bq", "bq_space"))][0]
            ctx.fail("resolution", full, f"{formula!r} env={env}: {name} as {role} is defined in {list(subset)}; resolved to {owner(seen)}, "
                     f"expected {first}" + (f"(level {env})" if first in ("locals", "globals") else ""), f"{role}:{first}->{owner(seen).split('(')[0]}")


def replay(ctx, case):
    judge(ctx, case)


def _subsets(scopes):
    return [c for k in range(len(scopes) + 1) for c in itertools.combinations(scopes, k)]


def enum_cases():
    for env in range(DEPTH):
        for subset in _subsets(SCOPES):
            yield {"items": [["arg", "zeta", list(subset)]], "env": env}
            yield {"items": [["bq", "zeta", list(subset)]], "env": env}
        for subset in _subsets(["builtin", "locals", "globals", "extra"]):
            for role in ("callee", "dotted1", "dotted2", "dotted3"):
                yield {"items": [[role, "zeta", list(subset)]], "env": env}
                if env == 0 and subset:
                    # a data column with the same name as the function: the data frame is not a scope for callees
                    yield {"items": [[role, "zeta", ["data"] + list(subset)]], "env": env}
        for subset in _subsets(["data", "builtin", "globals", "extra"]):
            yield {"items": [["bq_space", "my zeta", list(subset)]], "env": env}
    # callee names that happen to be Python builtins: they are not a scope
    for name in ("abs", "round", "max"):
        for subset in _subsets(["builtin", "locals", "globals", "extra"]):
            yield {"items": [["callee", name, list(subset)]], "env": 0}
        yield {"items": [["dotted1", name, []]], "env": 1}
    for first, later in (("locals", "globals"), ("locals", "extra"), ("globals", "extra")):
        yield {"kind": "none_value", "first": first, "later": later}
    for name in ("Sum", "Treatment"):
        for also_extra in (False, True):
            for keyword in (False, True):
                yield {"kind": "encoding_named_column", "name": name, "also_extra": also_extra, "keyword": keyword}
    for role in ("arg", "callee"):
        for subset in _subsets(["locals", "globals", "extra"]):
            if subset:
                yield {"kind": "response_side", "role": role, "subset": list(subset)}
    for name in SHADOWED:
        for subset in _subsets(["locals", "globals", "extra"]):
            if subset:
                yield {"kind": "shadow", "name": name, "subset": list(subset)}
    order = ["builtin", "locals", "globals", "extra"]
    for i, first in enumerate(order):
        for later in order[i + 1:]:
            yield {"kind": "dotted_first_match", "first": first, "later": later}
    for role in ("arg", "callee"):
        for where in (None, "globals", "extra"):
            for shape in ("def", "lambda"):
                for captures in (False, True):
                    for env in (0, 1):
                        yield {"kind": "closure", "role": role, "where": where, "shape": shape, "captures": captures, "env": env}
    for env in (50, 1000):
        yield {"items": [["arg", "zeta", ["extra"]]], "env": env}
        yield {"items": [["callee", "zeta", ["globals", "extra"]]], "env": env}


@st.composite
def multi_case(draw):
    names = draw(st.lists(st.sampled_from(["zeta", "eta", "theta", "iota"]), min_size=2, max_size=3, unique=True))
    items = []
    for nme in names:
        role = draw(st.sampled_from(["arg", "arg", "bq", "callee", "dotted1", "dotted2", "dotted3"]))
        pool = SCOPES if role in ("arg", "bq") else SCOPES[1:]
        subset = draw(st.lists(st.sampled_from(pool), min_size=1, max_size=len(pool), unique=True))
        items.append([role, nme, [s for s in SCOPES if s in subset]])
    return {"items": items, "env": draw(st.integers(0, DEPTH - 1))}


def _enum_worker(ctx, arg):
    shard, n = arg
    for i, c in enumerate(enum_cases()):
        if i % n == shard:
            judge(ctx, c)


def _multi_worker(ctx, arg):
    shard, n = arg
    core.run_hypothesis(ctx, multi_case(), judge, n, shard=shard)


def run(ctx):
    ns = core.NPROC
    ctx.parallel(_enum_worker, [(k, ns) for k in range(ns)])
    ctx.exhaustive["scope subsets x roles (argument, back-quoted, callee, dotted) x env depth 0..3"] = {"complete": True}
    per = 150 if ctx.tier == "quick" else 6000
    ctx.parallel(_multi_worker, [(k, per) for k in range(ns)])
