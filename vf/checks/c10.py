"""C10 — unseen levels and new groups at prediction follow the configured policy."""
import re
import warnings

import numpy as np
from hypothesis import strategies as st

from vf import core, frames, rich

PROPERTY = "C10"
RULE = (
    "cases = (formula, training frame, new rows, injections, mode sequence): unseen values are injected at drawn rows "
    "into categorical predictors, effect variables, grouping variables (also one factor of an interaction grouping) "
    "or several at once; modes error / warning / silent in drawn sequences of 1-4 changes, plus chained evaluation of "
    "derived objects; configuration pool (documented and undocumented keys and values) enumerated exhaustively through "
    "item assignment, attribute assignment and Config(dict); distinct = distinct case; non-trivial = the unseen value "
    "is in a variable that occurs in >= 2 terms or in an interaction, or two different grouping factors get unseen values"
)
ASSUMPTIONS = [
    "expected matrices are derived from the library's own result on the same rows with the unseen value replaced by the "
    "value the row had in training (metamorphic), plus the zeroing / extra-slot rule of the statement",
    "a column involves a variable iff its label (level names removed) mentions the variable",
]

UNSEEN = {"f": "zz", "g": "zz", "h": "zz", "u": "zz", "k": 99, "v": 77, "c1": "other"}


@st.composite
def case_strategy(draw):
    spec = draw(rich.frame_strategy(min_rows=8, max_rows=30, with_index=False, extra_unused=False))
    d = draw(rich.design(num_pool=("x", "z", "scale(x)", "center(z)", "np.log(p)", "poly(x, 2)", "I(x + z)"), max_groups=2,
                         grp_pool=tuple(g for g in rich.GRP if "S(" not in g and "Sum" not in g and "I(" not in g)))  # the statement's blocks are indicator blocks
    used = sorted(rich.used_columns(d) & set(UNSEEN))
    n = frames.nrows(spec)
    # a factor with one single level in training: next to an intercept its term has no column at all, but a new level
    # of it is still a level that was absent in training
    spec["cols"].append({"name": "c1", "kind": "str", "values": ["only"] * n})
    if draw(st.integers(0, 4)) == 0 and not d["formula"].rstrip().endswith("- 1"):
        d = dict(d, formula=d["formula"] + " + c1", single_level_term=True)
        used = used + ["c1"]
    rows = draw(st.lists(st.integers(0, n - 1), min_size=2, max_size=7))
    inject = {}
    if used:
        for v in draw(st.lists(st.sampled_from(used), min_size=1, max_size=min(3, len(used)), unique=True)):
            inject[v] = sorted(draw(st.sets(st.integers(0, len(rows) - 1), min_size=1, max_size=len(rows))))
    modes = draw(st.lists(st.sampled_from(["error", "warning", "silent"]), min_size=1, max_size=4))
    return {"kind": "design", "design": d, "frame": spec, "rows": rows, "inject": inject, "modes": modes,
            "as_categorical": draw(st.sampled_from([False, True, True, "same_count"])), "chain": draw(st.booleans()),
            "new_index": draw(st.sampled_from([None, None, "reversed", "offset", "strings", "repeated"])),
            "unseen_style": draw(st.sampled_from(["other", "other", "suffix"]))}


def new_frames(case):
    spec, rows, inject = case["frame"], case["rows"], case["inject"]
    base = frames.take(spec, rows)
    base["index"] = None
    inj = {"cols": [], "index": None}
    for c in base["cols"]:
        c2 = dict(c)
        if c["name"] in inject:
            vals = list(c["values"])
            unseen = UNSEEN[c["name"]]
            if case.get("unseen_style") == "suffix" and isinstance(unseen, str):
                # a level nobody has seen that begins like the longest level of the training data
                unseen = max((str(v) for v in c["values"]), key=len) + "0"
            for i in inject[c["name"]]:
                vals[i] = unseen
            c2["values"] = vals
            if c["kind"] == "cat":
                absent = [v for v in c["categories"] if v not in vals]
                if case.get("as_categorical") == "same_count" and absent:
                    # as many categories as in training, but not the same ones: the unseen level stands where a level that
                    # does not occur in the new rows stood
                    c2["categories"] = [unseen if v == absent[0] else v for v in c["categories"]]
                elif case.get("as_categorical"):
                    c2["categories"] = list(c["categories"]) + [unseen]
                else:
                    c2 = {"name": c["name"], "kind": "str" if all(isinstance(v, str) for v in vals) else "object", "values": vals}
        inj["cols"].append(c2)
    # the new frame's index is what a filtered, sorted or concatenated frame has: anything but 0..n-1
    m = len(rows)
    index = {None: None, "reversed": list(range(m - 1, -1, -1)), "offset": [100 + 3 * i for i in range(m)], "strings": ["r%d" % i for i in range(m)],
             "repeated": [i // 2 for i in range(m)]}[case.get("new_index")]
    base["index"] = inj["index"] = index
    return frames.build(base), frames.build(inj)


def involves(label, var):
    plain = re.sub(r"\[[^\]]*\]", "", label)
    if var not in rich.COLS:
        return re.search(r"\b%s\b" % re.escape(var), plain) is not None
    return var in rich.bases(plain)


def nontrivial(case):
    d, inject = case["design"], case["inject"]
    if not inject:
        return False
    allterms = d["terms"] + [e for g in d["groups"] for e in g["effects"]]
    for v in inject:
        hits = [t for t in allterms if any(v in rich.bases(a) for a in t)]
        if len(hits) >= 2 or any(len(t) > 1 for t in hits):
            return True
        if any(v in rich.bases(g["factor"]) and ":" in g["factor"] for g in d["groups"]):
            return True
    gf = [g["factor"] for g in d["groups"] if any(v in rich.bases(g["factor"]) for v in inject)]
    return len(gf) >= 2


def judge_design(ctx, case):
    from formulae import config, design_matrices

    rich.register_user_transform()
    d, spec, inject = case["design"], case["frame"], case["inject"]
    formula = d["formula"]
    frame = frames.build(spec)
    ns = rich.namespace_for(frame)
    ctx.count(core.canon(case), nontrivial(case), ["modes:%d" % len(case["modes"]), "injected_vars:%d" % len(inject)] +
              ["mode:" + m for m in sorted(set(case["modes"]))] + (["chain"] if case.get("chain") else []),
              sample={"formula": formula, "rows": case["rows"], "inject": inject, "modes": case["modes"]},
              stratum="group" if d["groups"] else "common")
    config["EVAL_UNSEEN_CATEGORIES"] = "error"
    try:
        with core.Guard():
            dm = design_matrices(formula, frame, extra_namespace=ns)
    except Exception as e:  # pylint: disable=broad-except
        ctx.fail("build", case, f"{formula!r} raised {type(e).__name__}: {e}", core.exc_key(e))
        return
    base, inj = new_frames(case)
    injected_rows = {v: set(r) for v, r in inject.items()}
    try:
        for step, mode in enumerate(case["modes"]):
            config["EVAL_UNSEEN_CATEGORIES"] = mode
            where = f"{formula!r} step {step} mode {mode} inject {inject}"
            for part in ("common", "group"):
                m = getattr(dm, part)
                if m is None:
                    continue
                labels = [l for t in m.terms.values() for l in t.labels]
                # a term involves a variable whether or not it has columns (a single-level factor next to an intercept has none)
                affected = any(involves(l, v) for l in list(labels) + list(m.terms) for v in inject)
                with core.Guard():
                    ref = m.evaluate_new_data(base)
                with warnings.catch_warnings(record=True) as w:
                    warnings.simplefilter("always")
                    try:
                        with core.Guard():
                            got = m.evaluate_new_data(inj)
                        exc = None
                    except Exception as e:  # pylint: disable=broad-except
                        got, exc = None, e
                warned = any(issubclass(x.category, UserWarning) for x in w)
                if mode == "error":
                    if affected and not isinstance(exc, ValueError):
                        ctx.fail("error_mode", case, f"{where}: {part} " + ("did not raise" if exc is None else f"raised {type(exc).__name__}: {exc}"),
                                 part + ":" + ("accepted" if exc is None else type(exc).__name__))
                    if not affected and exc is not None:
                        ctx.fail("error_mode", case, f"{where}: {part} does not involve the injected variables but raised {type(exc).__name__}: {exc}", part + ":spurious")
                    continue
                if exc is not None:
                    ctx.fail("lenient_mode", case, f"{where}: {part} raised {type(exc).__name__}: {exc}", part + ":" + core.exc_key(exc))
                    continue
                if mode == "silent" and warned:
                    ctx.fail("warning", case, f"{where}: {part} warned in silent mode", part + ":silent_warned")
                if mode == "warning" and affected and not warned:
                    ctx.fail("warning", case, f"{where}: {part} did not warn", part + ":not_warned")
                if part == "common":
                    check_common(ctx, case, where, ref, got, labels, injected_rows)
                else:
                    check_group(ctx, case, where, m, ref, got, injected_rows)
                    if case.get("chain"):
                        check_chain(ctx, case, where, m, got, base, inj, ref)
    finally:
        config["EVAL_UNSEEN_CATEGORIES"] = "error"


def check_common(ctx, case, where, ref, got, labels, injected_rows):
    xb = np.asarray(ref.design_matrix, dtype=float)
    x = np.asarray(got.design_matrix, dtype=float)
    if x.shape != xb.shape:
        ctx.fail("common", case, f"{where}: common matrix has shape {x.shape}, expected {xb.shape}", "shape")
        return
    want = xb.copy()
    for j, lab in enumerate(labels):
        for v, rows in injected_rows.items():
            if involves(lab, v):
                want[sorted(rows), j] = 0
    if not np.allclose(x, want, rtol=1e-9, atol=1e-12):
        i, j = [int(t[0]) for t in np.nonzero(~np.isclose(x, want, rtol=1e-9, atol=1e-12))]
        ctx.fail("common", case, f"{where}: common[{i}, {labels[j]!r}] = {x[i, j]}, expected {want[i, j]}", "zeroing" if want[i, j] == 0 else "other_entries")


def check_group(ctx, case, where, m, ref, got, injected_rows):
    zb = np.asarray(ref.design_matrix, dtype=float)
    z = np.asarray(got.design_matrix, dtype=float)
    start = 0
    new_factors = []
    for name, term in m.terms.items():
        sb = ref.slices[name]
        blockb = zb[:, sb]
        ng = len(term.groups)
        wb = sb.stop - sb.start
        st_ = m.slices[name]
        if wb != st_.stop - st_.start or wb % ng:
            ctx.fail("group", case, f"{where}: on rows without any unseen value {name} has {wb} columns, the training matrix has "
                     f"{st_.stop - st_.start} for {ng} groups", "width_without_new_groups")
            return
        p = wb // ng
        fvars = [v for v in injected_rows if v in rich.bases(term.factor.name)]
        newrows = sorted(set().union(*[injected_rows[v] for v in fvars])) if fvars else []
        elabels = ["1"] if type(term.expr).__name__ == "Intercept" else list(term.expr.labels)
        width = wb + (p if newrows else 0)
        sl = got.slices.get(name)
        if sl is None or (sl.start, sl.stop) != (start, start + width):
            ctx.fail("group", case, f"{where}: slice of {name} is {sl}, expected [{start}, {start + width})", "slices")
            return
        block = z[:, sl]
        want = np.zeros((zb.shape[0], width))
        for i in range(zb.shape[0]):
            e = blockb[i].reshape(ng, p).sum(axis=0)
            for k, el in enumerate(elabels):
                if any(involves(el, v) and i in rows for v, rows in injected_rows.items()):
                    e[k] = 0
            if i in newrows:
                want[i, wb:] = e
            else:
                slot = blockb[i].reshape(ng, p)
                own = np.flatnonzero(np.abs(slot).sum(axis=1) > 0)
                row = blockb[i].copy().reshape(ng, p)
                for k, el in enumerate(elabels):
                    if any(involves(el, v) and i in rows for v, rows in injected_rows.items()):
                        row[:, k] = 0
                want[i, :wb] = row.reshape(-1)
                del own
        if block.shape != want.shape or not np.allclose(block, want, rtol=1e-9, atol=1e-12):
            ctx.fail("group", case, f"{where}: block of {name} (groups {term.groups}, new-group rows {newrows}) is not "
                     f"'training slots zero on the new-group rows, one trailing slot with their effect values, everything else unchanged'",
                     "new_slot" if newrows else "unaffected_term")
            return
        if newrows and term.factor.name not in new_factors:
            new_factors.append(term.factor.name)
        start += width
    if z.shape[1] != start:
        ctx.fail("group", case, f"{where}: group matrix has {z.shape[1]} columns, slices cover {start}", "slices")
    if tuple(got.factors_with_new_levels) != tuple(new_factors):
        ctx.fail("group", case, f"{where}: factors_with_new_levels = {got.factors_with_new_levels}, expected {tuple(new_factors)}", "factors_with_new_levels")


def check_chain(ctx, case, where, m, derived, base, inj, ref):
    """A derived object evaluates new data exactly like the object it was derived from."""
    for name, fr, first in (("without new groups", base, ref), ("with new groups", inj, derived)):
        try:
            with warnings.catch_warnings():
                warnings.simplefilter("ignore")
                with core.Guard():
                    again = derived.evaluate_new_data(fr)
        except Exception as e:  # pylint: disable=broad-except
            ctx.fail("chain", case, f"{where}: evaluating a derived object on the frame {name} raised {type(e).__name__}: {e}", core.exc_key(e))
            continue
        a, b = np.asarray(again.design_matrix, dtype=float), np.asarray(first.design_matrix, dtype=float)
        if a.shape != b.shape or not np.array_equal(a, b):
            ctx.fail("chain", case, f"{where}: derived object gives another matrix on the frame {name}", "matrix")
        if tuple(again.factors_with_new_levels) != tuple(first.factors_with_new_levels):
            ctx.fail("chain", case, f"{where}: derived object reports factors_with_new_levels = {again.factors_with_new_levels} on the frame {name}, "
                     f"the training object reports {first.factors_with_new_levels}", "factors_with_new_levels")
        if {k: (v.start, v.stop) for k, v in again.slices.items()} != {k: (v.start, v.stop) for k, v in first.slices.items()}:
            ctx.fail("chain", case, f"{where}: derived object has other slices on the frame {name}", "slices")


# ---- configuration -------------------------------------------------------------------------------------
KEYS = ["EVAL_UNSEEN_CATEGORIES", "eval_unseen_categories", "EVAL_UNSEEN", "FIELDS", "", "x", "__class__", 0, None]
VALUES = ["error", "warning", "silent", "Error", "warn", "ignore", "", None, 0, True, ("error",), "errorsilent"]


def judge_config(ctx, case):
    from formulae.config import Config

    key, value, how = case["key"], case["value"], case["how"]
    documented = key == "EVAL_UNSEEN_CATEGORIES" and isinstance(value, str) and value in ("error", "warning", "silent")
    ctx.count(core.canon(case), True, ["config:" + how, "documented" if documented else "undocumented"], stratum="config")
    cfg = Config()
    try:
        if how == "item":
            cfg[key] = value
        elif how == "attr":
            setattr(cfg, key, value)
        else:
            cfg = Config({key: value})
        ok = True
    except (KeyError, ValueError, TypeError) as e:
        ok, err = False, e
    except Exception as e:  # pylint: disable=broad-except
        ctx.fail("config", case, f"config {how} {key!r}={value!r} raised {type(e).__name__}: {e}", "exception_type")
        return
    if documented:
        if not ok:
            ctx.fail("config", case, f"documented setting {key!r}={value!r} via {how} was refused: {err}", "refused")
        elif cfg["EVAL_UNSEEN_CATEGORIES"] != value or cfg.EVAL_UNSEEN_CATEGORIES != value:
            ctx.fail("config", case, f"{key!r}={value!r} via {how} reads back {cfg['EVAL_UNSEEN_CATEGORIES']!r}", "readback")
        return
    if how == "init" and key != "EVAL_UNSEEN_CATEGORIES":
        # Config(dict) ignores keys it does not know; what must hold is that the known field keeps a documented value
        if cfg["EVAL_UNSEEN_CATEGORIES"] not in ("error", "warning", "silent"):
            ctx.fail("config", case, f"Config({{{key!r}: {value!r}}}) left an undocumented value", "init")
        return
    # a refused setting leaves no trace: the configuration still holds a documented value and no new field
    if not ok and how != "init":
        try:
            now = cfg["EVAL_UNSEEN_CATEGORIES"]
            fields = sorted(k for k in vars(cfg) if not k.startswith("_"))
        except Exception as e:  # pylint: disable=broad-except
            now, fields = f"<{type(e).__name__}>", []
        if now != "error" or fields not in ([], ["EVAL_UNSEEN_CATEGORIES"]):
            ctx.fail("config", case, f"{key!r}={value!r} via {how} was refused ({type(err).__name__}) but the configuration now reads "
                     f"{now!r} with fields {fields}", "refused_but_stored")
    if ok:
        ctx.fail("config", case, f"undocumented setting {key!r}={value!r} via {how} was accepted (now {vars(cfg)})", "accepted")
    elif key == "EVAL_UNSEEN_CATEGORIES" and not isinstance(err, ValueError):
        ctx.fail("config", case, f"bad value {value!r} raised {type(err).__name__}, documented is ValueError", "exception_type")
    elif key != "EVAL_UNSEEN_CATEGORIES" and how != "init" and not isinstance(err, (KeyError, TypeError)):
        ctx.fail("config", case, f"unknown key {key!r} raised {type(err).__name__}, documented is KeyError", "exception_type")


def judge_config_isolation(ctx, case):
    """Config objects do not share state: creating or changing another instance leaves formulae.config alone."""
    from formulae import config
    from formulae.config import Config

    ctx.count(core.canon(case), True, ["config:isolation"], stratum="config")
    try:
        config["EVAL_UNSEEN_CATEGORIES"] = case["global"]
        a = Config()
        b = Config({"EVAL_UNSEEN_CATEGORIES": case["other"]})
        b["EVAL_UNSEEN_CATEGORIES"] = case["other"]
        seen = (config["EVAL_UNSEEN_CATEGORIES"], a["EVAL_UNSEEN_CATEGORIES"], b["EVAL_UNSEEN_CATEGORIES"])
        if seen != (case["global"], "error", case["other"]):
            ctx.fail("config", case, f"global set to {case['global']!r}, a fresh Config() and Config({case['other']!r}) read back {seen}", "shared_state")
    finally:
        config["EVAL_UNSEEN_CATEGORIES"] = "error"


def judge(ctx, case):
    if ctx.skip():
        return
    if case.get("kind") == "config_isolation":
        judge_config_isolation(ctx, case)
    elif case.get("kind") == "config":
        judge_config(ctx, case)
    else:
        judge_design(ctx, case)


def replay(ctx, case):
    judge(ctx, case)


def _worker(ctx, arg):
    shard, n = arg
    core.run_hypothesis(ctx, case_strategy(), judge, n, shard=shard)


def run(ctx):
    for key in KEYS:
        for value in VALUES:
            for how in ("item", "attr", "init"):
                if how == "attr" and not isinstance(key, str):
                    continue
                if how == "attr" and key == "":
                    continue
                judge(ctx, {"kind": "config", "key": key, "value": value, "how": how})
    for g_ in ("error", "warning", "silent"):
        for o_ in ("error", "warning", "silent"):
            judge(ctx, {"kind": "config_isolation", "global": g_, "other": o_})
    ctx.exhaustive["configuration pool: 9 keys x 12 values x 3 ways of setting"] = {"complete": True}
    per = 200 if ctx.tier == "quick" else 5000
    ctx.parallel(_worker, [(k, per) for k in range(core.NPROC)])
