"""C15 — response handling."""
import numpy as np
import pandas as pd
from hypothesis import strategies as st

from vf import core, frames, rich
from vf.observe import compare_summaries, design_summary

PROPERTY = "C15"
RULE = (
    "cases = (response form, right-hand side, frame): responses numeric, str, Categorical, ordered Categorical, "
    "y[ident], y['quoted level'], y[\"level with spaces\"], a level absent from the data, calls (np.abs(y), "
    "binary(g, 'g1'), C(k)), prop / p / proportion with column or constant trials and successes held as int64, int8 or bool, a single-level "
    "factor, frames of a single row, invalid responses (sums, "
    "interactions, products, a literal, offset, a predictor-side prop) and no response; right-hand sides from the rich "
    "generator, also containing the response variable itself; distinct = distinct (formula, frame); non-trivial = a "
    "categorical response with >= 3 levels, or y[level], or prop, combined with a right-hand side that has a "
    "categorical term"
)
ASSUMPTIONS = [
    "a level that does not occur gives an all-zero column (the statement: 1 exactly where y equals the level)",
    "predictor matrices of `R ~ rhs` are compared with those of `rhs` alone and of `y ~ rhs` exactly",
]

VALID = ["y", "x", "k", "I(x > 0)", "f", "g", "h", "u", "g[g1]", "g['g1']", 'h["lo"]', "w['a b']", 'w["c d"]', "w['sí']", 'w["sí"]', "w['C:\\new\\table']", "f[zz]", "np.abs(y)", "binary(g, 'g1')",
         "C(k)", "C(h)", "C(f)", "d['10']", 'd["2"]', "d[1]" if False else "d['1']", "prop(s, n)", "p(s, n)", "proportion(s, n)", "prop(s, 40)", "p(s, 40)", "prop(sb, 5)", "p(sb, 1)", "prop(s8, 200)", "proportion(s8, n)",
         "c1", "C(c1)", "sign2(x)", "sign2s(z)", "sign2c(x)", None]  # calls of the caller's functions that return two categories
ONE_ROW = ["y", "np.abs(y)", "I(x > 0)", "f", "g", "g['g1']", "w['a b']", "prop(s, n)", "p(s, 40)", "prop(sb, 5)", "c1"]
INVALID = ["y + x", "y:x", "y*x", "1", "0", "offset(y)", "y / x", "(y | g)", "2", "x[a]", "k['10']", "k[\"2\"]", "y + (1 | g)", "(1 | g) + y", "y + (x | g)"]  # a level on a numeric variable


MEDIAN_CUT = 0.25
SIGN_FUNCTIONS = {
    "sign2": lambda v: np.where(np.asarray(v, dtype=float) > MEDIAN_CUT, "pos", "neg"),
    "sign2s": lambda v: pd.Series(np.where(np.asarray(v, dtype=float) > MEDIAN_CUT, "pos", "neg"), index=v.index),
    "sign2c": lambda v: pd.Categorical(np.where(np.asarray(v, dtype=float) > MEDIAN_CUT, "pos", "neg"), categories=["pos", "neg"], ordered=True),
}


@st.composite
def case_strategy(draw):
    spec = draw(rich.frame_strategy(min_rows=8, max_rows=26, with_index=True, extra_unused=False))
    n = frames.nrows(spec)
    seed = draw(st.integers(0, 20))
    trials = [5 + (i * 7 + seed) % 9 for i in range(n)]
    succ = [(i * 5 + seed) % (t + 1) for i, t in enumerate(trials)]
    spec["cols"].append({"name": "s", "kind": "int", "values": succ})
    spec["cols"].append({"name": "n", "kind": "int", "values": trials})
    wl = ["a b", "c d", "sí", "C:\\new\\table"]  # levels with spaces, one that is not ASCII, one with backslashes
    spec["cols"].append({"name": "w", "kind": "str", "values": [wl[(i + seed) % 4] for i in range(n)]})
    dl = ["10", "2", "1"]  # levels that look like numbers
    spec["cols"].append({"name": "d", "kind": "str", "values": [dl[(i * 2 + seed) % 3] for i in range(n)]})
    spec["cols"].append({"name": "sb", "kind": "bool", "values": [bool((i + seed) % 3 == 0) for i in range(n)]})  # successes held as booleans
    spec["cols"].append({"name": "s8", "kind": "int8", "values": [(i * 3 + seed) % 5 for i in range(n)]})  # ... and as small integers
    spec["cols"].append({"name": "c1", "kind": "str", "values": ["only"] * n})  # a factor with a single level
    if draw(st.integers(0, 9)) == 0:
        # a frame of a single row: every response form still has one row and its usual number of columns
        spec = frames.take(spec, [draw(st.integers(0, n - 1))])
        resp = draw(st.sampled_from(ONE_ROW))
        base = resp.split("[")[0]
        if base in ("f", "g") and frames.column(spec, base).get("ordered"):
            resp = "y"
        body = draw(st.sampled_from(["1", "x", "0 + x", "1 + x + z"]))
        return {"response": resp, "valid": True, "design": {"response": None, "intercept": "implicit", "terms": [], "groups": [], "formula": body},
                "frame": spec, "rhs_only_pred": False}
    valid = draw(st.integers(0, 5)) > 0
    resp = draw(st.sampled_from(VALID if valid else INVALID))
    d = draw(rich.design(response=None, max_groups=1))
    if draw(st.integers(0, 3)) == 0:
        # the shortest right-hand sides take their own route through the `~` operator
        body = draw(st.sampled_from(["1", "x", "0 + x", "f", "(1 | g)", "1 + x", "0 + x + 1", "x - 1 + 1", "-1 + f + 1 + x", "0 + f + x + 1"]))
        d = {"response": None, "intercept": "implicit", "terms": [], "groups": [], "formula": body}
    return {"response": resp, "valid": valid, "design": d, "frame": spec, "rhs_only_pred": draw(st.booleans())}


def expected_response(resp, frame, spec):
    """(kind, matrix, levels or None) of a valid response, from the frame alone."""
    def col(name):
        return frame[name]

    if resp in ("y", "x", "k"):
        return "numeric", col(resp).to_numpy(dtype=float), None
    if resp == "I(x > 0)":
        return "numeric", (col("x") > 0).to_numpy(dtype=float), None
    if resp == "np.abs(y)":
        return "numeric", np.abs(col("y").to_numpy(dtype=float)), None
    if resp in ("f", "g", "h", "u", "C(k)", "C(h)", "C(f)", "c1", "C(c1)"):
        name = resp[2:-1] if resp.startswith("C(") else resp
        c = frames.column(spec, name)
        vals = col(name).tolist()
        if c["kind"] == "cat" and c.get("ordered"):
            levels = list(c["categories"])
        else:
            levels = sorted(set(vals))
        m = np.column_stack([[1 if v == l else 0 for v in vals] for l in levels])
        return "categoric", m, [l for l in levels]
    if "[" in resp:
        name, lv = resp[:-1].split("[")
        lv = lv.strip("'\"")
        return "categoric", np.array([1 if v == lv else 0 for v in col(name).tolist()]), None
    if resp.startswith("sign2"):
        vals = ["pos" if v > MEDIAN_CUT else "neg" for v in col(resp[resp.index("(") + 1:-1]).tolist()]
        levels = ["pos", "neg"] if resp.startswith("sign2c") else sorted(set(vals))  # sign2c declares its order
        return "categoric", np.column_stack([[1 if v == l else 0 for v in vals] for l in levels]), levels
    if resp.startswith("binary("):
        return "numeric", np.array([1 if v == "g1" else 0 for v in col("g").tolist()]), None
    if resp.split("(")[0] in ("prop", "p", "proportion"):
        a, b = [v.strip() for v in resp[resp.index("(") + 1:-1].split(",")]
        s = col(a).to_numpy().astype(float)
        t = col(b).to_numpy() if b in frame.columns else np.full(len(frame), int(b))
        return "proportion", np.column_stack([s, t]), None
    raise KeyError(resp)


def judge(ctx, case):
    from formulae import design_matrices

    if ctx.skip():
        return
    rich.register_user_transform()
    d, spec, resp = case["design"], case["frame"], case["response"]
    frame = frames.build(spec)
    ns = rich.namespace_for(frame)
    ns.update(SIGN_FUNCTIONS)
    rhs = d["formula"]
    formula = rhs if resp is None else f"{resp} ~ {rhs}"
    has_cat = any(a in ("f", "g", "h", "u") or a.startswith(("C(", "T(", "S(")) for t in d["terms"] + [e for g in d["groups"] for e in g["effects"]] for a in t)
    special = resp is not None and ("[" in resp or resp.split("(")[0] in ("prop", "p", "proportion") or
                                    (resp in ("f", "g", "h", "u", "C(k)", "C(h)", "C(f)") and len(set(frame[resp[2:-1] if resp.startswith("C(") else resp].tolist())) >= 3))
    ctx.count(core.canon([formula, spec]), bool(special and has_cat), ["response:" + ("none" if resp is None else resp.split("(")[0].split("[")[0] + ("[level]" if resp and "[" in resp else "")),
              "valid" if case["valid"] else "invalid"], sample={"formula": formula, "frame": spec}, stratum="valid" if case["valid"] else "invalid")
    full = dict(case, formula=formula)

    def build(f):
        with core.Guard():
            return design_matrices(f, frame, extra_namespace=ns)

    if not case["valid"]:
        try:
            build(formula)
        except Exception:  # pylint: disable=broad-except
            return
        ctx.fail("invalid_response", full, f"{formula!r}: a response that is not a single valid term was accepted", resp)
        return
    try:
        ref = build(rhs)
    except Exception as e:  # pylint: disable=broad-except
        ctx.fail("build", full, f"{rhs!r} (no response) raised {type(e).__name__}: {e}", core.exc_key(e))
        return
    if ref.response is not None:
        ctx.fail("no_response", full, f"{rhs!r}: a design without `~` has a response", "present")
    if resp is None:
        return
    try:
        dm = build(formula)
    except Exception as e:  # pylint: disable=broad-except
        ctx.fail("build", full, f"{formula!r} raised {type(e).__name__}: {e}", resp.split("(")[0].split("[")[0] + ":" + core.exc_key(e))
        return
    if dm.response is None:
        ctx.fail("response", full, f"{formula!r}: no response matrix", "missing")
        return
    kind, want, levels = expected_response(resp, frame, spec)
    got = np.asarray(dm.response.design_matrix)
    want_arr = np.asarray(want)
    if got.ndim not in (1, 2) or got.shape[0] != len(frame):
        ctx.fail("response", full, f"{formula!r}: response has shape {got.shape}, frame has {len(frame)} rows", "rows")
    elif (levels is not None or kind == "proportion") and got.shape != want_arr.reshape(len(frame), -1).shape:
        ctx.fail("response", full, f"{formula!r}: response has shape {got.shape}, expected {want_arr.reshape(len(frame), -1).shape} "
                 f"(one column per {'level' if levels is not None else 'part'})", "shape")
    elif got.reshape(len(frame), -1).shape != want_arr.reshape(len(frame), -1).shape or \
            not np.allclose(got.reshape(len(frame), -1).astype(float), want_arr.reshape(len(frame), -1).astype(float), rtol=0, atol=0):
        ctx.fail("response", full, f"{formula!r}: response matrix {got.reshape(-1)[:6].tolist()}... differs from {want_arr.reshape(-1)[:6].tolist()}...",
                 resp.split("(")[0].split("[")[0])
    if levels is not None:
        if dm.response.levels is None or [str(l) for l in dm.response.levels] != [str(l) for l in levels]:
            ctx.fail("response", full, f"{formula!r}: response levels {dm.response.levels}, expected {levels}", "levels")
        if got.ndim == 2 and not (got.sum(axis=1) == 1).all():
            ctx.fail("response", full, f"{formula!r}: indicator rows do not have exactly one 1", "indicators")
    # predictor matrices do not depend on the response
    a, b = design_summary(ref), design_summary(dm)
    for key in ("response", "response_meta"):
        a[key] = b[key] = None
    a["params"] = [p for p in a["params"]]
    b["params"] = b["params"][: len(a["params"])] if len(b["params"]) >= len(a["params"]) else b["params"]
    for key, msg in compare_summaries(a, b, exact=True)[:2]:
        if key == "params":
            continue
        ctx.fail("independence", full, f"{formula!r}: predictor side differs from the design of {rhs!r}: {key}: {msg}"[:500], key)
    if resp != "y":
        try:
            other = design_summary(build(f"y ~ {rhs}"))
            b2 = design_summary(dm)
            for s in (other, b2):
                s["response"] = s["response_meta"] = None
                s["params"] = []
            for key, msg in compare_summaries(other, b2, exact=True)[:2]:
                ctx.fail("independence", full, f"{formula!r}: predictor side differs from the design with response y: {key}: {msg}"[:500], key)
        except Exception as e:  # pylint: disable=broad-except
            ctx.fail("build", full, f"'y ~ {rhs}' raised {type(e).__name__}: {e}", core.exc_key(e))


def replay(ctx, case):
    judge(ctx, case)


def _worker(ctx, arg):
    shard, n = arg
    core.run_hypothesis(ctx, case_strategy(), judge, n, shard=shard)


def run(ctx):
    per = 300 if ctx.tier == "quick" else 7500
    ctx.parallel(_worker, [(k, per) for k in range(core.NPROC)])
