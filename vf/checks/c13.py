"""C13 — contrast codings are valid, honour their options, and are interchangeable."""
import itertools
import random

import numpy as np
from hypothesis import strategies as st

from vf import core, frames
from vf import refcoding as rc

PROPERTY = "C13"
RULE = (
    "cases = (a) every Treatment / Sum coding object for 1..12 levels (strings and integers) and every reference / "
    "omitted level incl. None, (b) every permutation of <= 4 (quick) / <= 5 (thorough) levels passed as levels= to "
    "C / T / S in a design, with and without intercept, (c) Hypothesis-drawn term families on replicated complete "
    "factorials in which every categorical factor is written with two different codings (plain, C, T, T(ref), S, "
    "S(omit), C(.., Sum), C(.., Treatment(ref)), levels=permutation); distinct = distinct case description; "
    "non-trivial = at least 3 levels with a reference / omitted level that is neither first nor last, or a levels= "
    "order that is not sorted, or a swap that changes the coding of a factor inside an interaction"
)
ASSUMPTIONS = [
    "interchangeability is judged on replicated complete factorials, by numerical rank (SVD, 1e-8 relative)",
    "levels= lists are passed through a variable of the calling scope (the formula language has no list literal)",
]


# ---- (a) coding objects -----------------------------------------------------------------------------
def judge_object(ctx, case):
    from formulae.categorical import Sum, Treatment

    n, ref_i, enc, kind = case["n"], case["ref"], case["encoding"], case["levels_kind"]
    if kind == "float":  # levels that need more than six significant digits, and whole-valued ones
        levels = [2.5, 1000001.0, 1000002.0, 0.1234567, 1.0, 1234567.5, 0.0, -3.25, 1e-07, 20240131.0, 0.5, 7.0][:n]
    else:
        levels = [f"l{i:02d}" for i in range(n)] if kind == "str" else ([3, 0, 7, 12, 5, 1, 9, 4, 30, 2, 8, 6][:n] if kind == "int" else list(range(n)))
    ref = None if ref_i is None else levels[ref_i]
    nt = n >= 3 and ref_i not in (None, 0, n - 1)
    ctx.count(core.canon(case), nt, ["object:" + enc, "levels:" + kind], stratum="object")
    try:
        e = Treatment(ref) if enc == "Treatment" else Sum(ref)
        red = e.code_without_intercept(list(levels))
        ful = e.code_with_intercept(list(levels))
    except Exception as ex:  # pylint: disable=broad-except
        ctx.fail("object", case, f"{enc}({ref!r}) on {n} levels raised {type(ex).__name__}: {ex}", core.exc_key(ex))
        return
    names = [str(l) for l in levels]
    if kind == "float":
        # a label names its level: read back as a number it is that level (the spelling is the library's choice)
        def reads_as(label, level):
            try:
                return float(label) == level
            except ValueError:
                return False

        kept_r = [l for i, l in enumerate(levels) if i != ((0 if ref_i is None else ref_i) if enc == "Treatment" else (n - 1 if ref_i is None else ref_i))]
        if len(red.labels) != len(kept_r) or not all(reads_as(a, b) for a, b in zip(red.labels, kept_r)) or len(set(red.labels)) != len(red.labels):
            ctx.fail("object", case, f"{enc}({ref!r}) on float levels: reduced labels {red.labels} do not name the levels {kept_r}", "float_labels")
        names = list(ful.labels) if enc == "Treatment" else [None] * n
        if enc == "Treatment" and not all(reads_as(a, b) for a, b in zip(ful.labels, levels)):
            ctx.fail("object", case, f"{enc}({ref!r}) on float levels: full labels {ful.labels} do not name the levels {levels}", "float_labels")
        if enc == "Treatment":
            names = [str(x) for x in ful.labels]
        else:
            names = [next((lab for lab in list(red.labels) if reads_as(lab, l)), str(l)) for l in levels]
    # one encoding object used again on other levels behaves like a new one (no state from the first use)
    try:
        lv2 = list(levels[1:]) + list(levels[:1])
        if ref is None or ref in lv2:
            fresh = Treatment(ref) if enc == "Treatment" else Sum(ref)
            again = (e.code_without_intercept(list(lv2)), e.code_with_intercept(list(lv2)))
            first = (fresh.code_without_intercept(list(lv2)), fresh.code_with_intercept(list(lv2)))
            for a, b, which in zip(again, first, ("reduced", "full")):
                if list(a.labels) != list(b.labels) or not np.array_equal(np.asarray(a.matrix, dtype=float), np.asarray(b.matrix, dtype=float)):
                    ctx.fail("object", case, f"{enc}({ref!r}): the same object used a second time, on levels {lv2}, gives another {which} coding "
                             f"than a new object (labels {list(a.labels)} vs {list(b.labels)})", "reuse")
    except Exception as ex:  # pylint: disable=broad-except
        ctx.fail("object", case, f"{enc}({ref!r}) used a second time raised {type(ex).__name__}: {ex}", "reuse:" + core.exc_key(ex))
    rm, fm = np.asarray(red.matrix, dtype=float), np.asarray(ful.matrix, dtype=float)
    what = f"{enc}({ref!r}) on {n} {kind} levels"
    if rm.shape != (n, n - 1):
        ctx.fail("object", case, f"{what}: reduced matrix has shape {rm.shape}", "shape")
        return
    if len(red.labels) != rm.shape[1] or len(ful.labels) != fm.shape[1]:
        ctx.fail("object", case, f"{what}: labels {red.labels} / {ful.labels} do not match the columns", "labels")
        return
    if rc.rank(np.column_stack([np.ones(n), rm])) != n:
        ctx.fail("object", case, f"{what}: [1 | reduced] has rank < {n}", "reduced_rank")
    if fm.shape[0] != n or rc.rank(fm) != n:
        ctx.fail("object", case, f"{what}: full matrix does not span all {n} level indicators", "full_rank")
    if enc == "Treatment":
        ri = 0 if ref_i is None else ref_i
        want = np.delete(np.eye(n), ri, axis=1)
        if not np.array_equal(rm, want):
            ctx.fail("object", case, f"{what}: reduced columns are not the indicators of the non-reference levels with a zero reference row", "treatment_matrix")
        if list(red.labels) != [l for i, l in enumerate(names) if i != ri]:
            ctx.fail("object", case, f"{what}: reduced labels {red.labels}", "treatment_labels")
        if not np.array_equal(fm, np.eye(n)) or list(ful.labels) != names:
            ctx.fail("object", case, f"{what}: full coding is not the identity with all level names", "treatment_full")
    else:
        oi = n - 1 if ref_i is None else ref_i
        if n > 1 and not np.array_equal(rm.sum(axis=0), np.zeros(n - 1)):
            ctx.fail("object", case, f"{what}: columns do not add up to zero over the levels", "sum_zero")
        if not (rm[oi] == -1).all():
            ctx.fail("object", case, f"{what}: the omitted level is not coded -1", "sum_omitted")
        want = np.delete(np.eye(n), oi, axis=1)
        want[oi, :] = -1
        if not np.array_equal(rm, want):
            ctx.fail("object", case, f"{what}: reduced matrix is not the sum-to-zero contrast of the kept levels", "sum_matrix")
        if list(red.labels) != [l for i, l in enumerate(names) if i != oi]:
            ctx.fail("object", case, f"{what}: reduced labels {red.labels}", "sum_labels")
        if list(ful.labels) != ["mean"] + [l for i, l in enumerate(names) if i != oi]:
            ctx.fail("object", case, f"{what}: full labels {ful.labels}", "sum_full_labels")


# ---- (b) options through designs ----------------------------------------------------------------------
def design_with(formula, frame, **namespace):
    from formulae import design_matrices

    namespace = dict(namespace)
    return design_matrices(formula, frame, extra_namespace=namespace)


def judge_levels(ctx, case):
    """case: {"kind":"levels","fn":"C"|"T"|"S","perm":[...level positions...],"n":n,"int":bool,"intercept":bool,"ref":pos|None}"""
    n, perm, fn = case["n"], case["perm"], case["fn"]
    spec = frames.factorial_spec({"f": n} if not case["int"] else {"k": n}, 3, seed=1 + case.get("dtype_seed", 0),
                                 catkinds={"f": case.get("dtype", "str")})
    frame = frames.build(spec)
    var = "k" if case["int"] else "f"
    present = sorted(set(frame[var].tolist()))
    lv = [present[i] for i in perm]
    ref = None if case.get("ref") is None else lv[case["ref"]]
    outer = None
    if fn in ("C(C)Sum", "C(C)Treatment"):
        # the inner call fixes the level order, the outer one only says how to code: C(C(f, levels=lv), Sum)
        outer = fn[4:] if ref is None else f"{fn[4:]}({ref!r})"
        fn = "C(S" if fn.endswith("Sum") else "C(T"
    nested = fn.startswith("C(")
    relevel = fn.endswith("*")  # C(T(f, levels=l1), levels=lv): the outer levels= decides order and default reference
    inner = fn[2:].rstrip("*") if nested else fn
    args = f"{var}"
    if ref is not None:
        args += f", {ref!r}" if inner in ("T", "S") else (f", Treatment({ref!r})" if inner == "C" else "")
    args += ", levels=l1" if relevel else ", levels=lv"
    call = f"{inner}({args})"
    if outer is not None:
        call = f"C(C({var}, levels=lv), {outer})"
    elif nested:
        call = f"C({call}, levels=lv)" if relevel else f"C({call})"  # the outer C() inherits the coding (and, unless it is given its own, the level order) from the inner call
    fn = inner
    formula = f"y ~ {'1' if case['intercept'] else '0'} + {call}"
    nt = lv != sorted(lv) or (n >= 3 and case.get("ref") not in (None, 0, n - 1))
    ctx.count(core.canon(case), nt, ["design:" + case["fn"], "intercept:%s" % case["intercept"]], sample=dict(case, formula=formula, lv=lv), stratum="levels=")
    full = dict(case, formula=formula, lv=[str(x) for x in lv])
    try:
        with core.Guard():
            dm = design_with(formula, frame, lv=lv, l1=lv[1:] + lv[:1])
        labels = list(dm.common.as_dataframe().columns)
        x = np.asarray(dm.common.design_matrix, dtype=float)
    except Exception as e:  # pylint: disable=broad-except
        ctx.fail("options", full, f"{formula!r} with lv={lv} raised {type(e).__name__}: {e}", core.exc_key(e))
        return
    name = call.replace('"', "'") if False else None  # the term name is the library's business (C12)
    term = [t for t in dm.common.terms if t != "Intercept"][0]
    col = np.array(frame[var].tolist(), dtype=object)
    ind = {l: (col == l).astype(float) for l in lv}
    sumlike = fn == "S"
    if case["intercept"]:
        if sumlike:
            omit = lv[-1] if ref is None else ref
            kept = [l for l in lv if l != omit]
            want_cols = [ind[l] - ind[omit] for l in kept]
        else:
            r0 = lv[0] if ref is None else ref
            kept = [l for l in lv if l != r0]
            want_cols = [ind[l] for l in kept]
        want_labels = ["Intercept"] + [f"{term}[{l}]" for l in kept]
        want = np.column_stack([np.ones(len(frame))] + want_cols)
    else:
        if sumlike:
            omit = lv[-1] if ref is None else ref
            kept = [l for l in lv if l != omit]
            want_labels = [f"{term}[mean]"] + [f"{term}[{l}]" for l in kept]
            want = np.column_stack([np.ones(len(frame))] + [ind[l] - ind[omit] for l in kept])
        else:
            want_labels = [f"{term}[{l}]" for l in lv]
            want = np.column_stack([ind[l] for l in lv])
    if labels != want_labels:
        ctx.fail("options", full, f"{formula!r} with lv={lv}: labels {labels}, expected {want_labels}", "labels")
    elif x.shape != want.shape or not np.array_equal(x, want):
        ctx.fail("options", full, f"{formula!r} with lv={lv}: columns differ from the coding the options describe", "matrix")
    else:
        # the options are honoured on new data as well: rows of the training frame in another order
        rows = list(range(len(frame)))[::-1][: max(2, len(frame) // 2)]
        try:
            with core.Guard():
                x2 = np.asarray(dm.common.evaluate_new_data(frame.iloc[rows].reset_index(drop=True)).design_matrix, dtype=float)
        except Exception as e:  # pylint: disable=broad-except
            ctx.fail("options", full, f"{formula!r} with lv={lv}: evaluate_new_data raised {type(e).__name__}: {e}", "new_data:" + core.exc_key(e))
            return
        if x2.shape != want[rows].shape or not np.array_equal(x2, want[rows]):
            ctx.fail("options", full, f"{formula!r} with lv={lv}: on new data the columns differ from the coding the options describe", "new_data")


def judge_badref(ctx, case):
    spec = frames.factorial_spec({"f": 3}, 2, seed=1)
    frame = frames.build(spec)
    formula = case["formula"]
    ctx.count(core.canon(case), True, ["design:bad_reference"], stratum="bad_reference")
    try:
        with core.Guard():
            design_with(formula, frame)
    except Exception:  # pylint: disable=broad-except
        return
    ctx.fail("options", case, f"{formula!r}: a reference / omitted level that is not a level of the factor was accepted", "bad_reference")


# ---- (c) interchangeability ---------------------------------------------------------------------------------
CODINGS = ["plain", "C", "T", "Tref", "S", "Somit", "CSum", "CTreat", "Clevels", "Tlevels", "CC", "CTref", "CSomit"]


def spell(base, coding, levels, pick, perm):
    """Formula text of `base` under a coding; `levels` sorted level values, pick = reference position."""
    r = levels[pick % len(levels)]
    if coding == "plain":
        return base if base != "k" else "C(k)"
    if coding == "C":
        return f"C({base})"
    if coding == "T":
        return f"T({base})"
    if coding == "Tref":
        return f"T({base}, {r!r})"
    if coding == "S":
        return f"S({base})"
    if coding == "Somit":
        return f"S({base}, {r!r})"
    if coding == "CSum":
        return f"C({base}, Sum)"
    if coding == "CTreat":
        return f"C({base}, Treatment({r!r}))"
    if coding == "Clevels":
        return f"C({base}, levels=lv_{base})"
    if coding == "CC":
        return f"C(C({base}, Sum))"
    if coding == "CTref":
        return f"C(T({base}, {r!r}))"
    if coding == "CSomit":
        return f"C(S({base}, {r!r}), levels=lv_{base})"
    return f"T({base}, levels=lv_{base})"


@st.composite
def swap_case(draw):
    bases = draw(st.lists(st.sampled_from(["f", "g", "h", "k", "x", "z"]), min_size=1, max_size=4, unique=True))
    if not any(b in "fghk" for b in bases):
        bases.append("f")
    nterms = draw(st.integers(1, 4))
    terms, seen = [], set()
    for _ in range(nterms):
        sub = draw(st.lists(st.sampled_from(bases), min_size=1, max_size=min(3, len(bases)), unique=True))
        if frozenset(sub) in seen:
            continue
        seen.add(frozenset(sub))
        terms.append(sub)
    used = sorted({b for t in terms for b in t})
    cats = [b for b in used if b in "fghk"]
    if not cats:
        terms.append(["f"])
        cats = ["f"]
    levels = {b: draw(st.integers(2, 4 if len(cats) < 3 else 3)) for b in cats}
    a, b2 = {}, {}
    for c in cats:
        a[c] = draw(st.sampled_from(CODINGS))
        b2[c] = draw(st.sampled_from([x for x in CODINGS if x != a[c]]))
    picks = {c: draw(st.integers(0, 3)) for c in cats}
    perms = {c: list(draw(st.permutations(range(levels[c])))) for c in cats}
    nnum = len([b for b in used if b in "xz"])
    return {"kind": "swap", "terms": terms, "levels": levels, "reps": 2 ** nnum + draw(st.integers(1, 2)), "seed": draw(st.integers(0, 9)),
            "intercept": draw(st.booleans()), "a": a, "b": b2, "picks": picks, "perms": perms,
            "catkinds": {c: draw(st.sampled_from(["str", "cat", "ordcat"])) for c in cats if c != "k"}}


def judge_swap(ctx, case):
    spec = frames.factorial_spec(case["levels"], case["reps"], case["seed"], case.get("catkinds"))
    frame = frames.build(spec)
    ns = {}
    lvs = {}
    for c in case["levels"]:
        present = sorted(set(frame[c].tolist()))
        lvs[c] = present
        ns[f"lv_{c}"] = [present[i] for i in case["perms"][c]]
    mats, formulas = [], []
    for which in ("a", "b"):
        items = []
        for t in case["terms"]:
            items.append(":".join(spell(b, case[which][b], lvs[b], case["picks"][b], None) if b in case["levels"] else b for b in t))
        formulas.append("y ~ " + ("1" if case["intercept"] else "0") + " + " + " + ".join(items))
    inter = any(len(t) > 1 and any(b in case["levels"] for b in t) for t in case["terms"])
    ctx.count(core.canon(case), inter, ["swap:%s>%s" % (case["a"][c], case["b"][c]) for c in case["levels"]][:1] + ["swap"], sample=dict(case, formulas=formulas),
              stratum="swap")
    full = dict(case, formulas=formulas, namespace={k: [str(x) for x in v] for k, v in ns.items()})
    for f in formulas:
        try:
            with core.Guard():
                dm = design_with(f, frame, **ns)
            mats.append(np.asarray(dm.common.design_matrix, dtype=float))
        except Exception as e:  # pylint: disable=broad-except
            ctx.fail("interchange", full, f"{f!r} raised {type(e).__name__}: {e}", core.exc_key(e))
            return
    # premise: every written term in general position (complete coding of full rank)
    for t in case["terms"]:
        m = np.ones((len(frame), 1))
        for b in t:
            part = rc.indicators(frame[b].to_numpy())[0] if b in case["levels"] else frame[b].to_numpy(dtype=float)[:, None]
            m = rc.khatri_rao_rows(m, part)
        if rc.rank(m) < m.shape[1]:
            ctx.classes["unjudged:data_not_in_general_position"] += 1
            return
    x1, x2 = mats
    i1, same, r1, r2, r12 = rc.span_report(x1, x2)
    i2 = rc.rank(x2) == x2.shape[1]
    if not i1 or not i2:
        which = formulas[0] if not i1 else formulas[1]
        ctx.fail("interchange", full, f"{which!r}: design matrix is rank deficient ({x1.shape[1]} cols rank {r1}; {x2.shape[1]} cols rank {r2})", "rank")
    elif not same:
        ctx.fail("interchange", full, f"{formulas[0]!r} and {formulas[1]!r} differ only in the coding of factors but span different spaces "
                 f"(dimensions {r1}, {r2}, joint {r12})", "span")


def judge_dtype(ctx, case):
    """A factor held in a less common column type (dates with second / nanosecond resolution, time spans, floats, booleans)
    through C / T / S: one indicator per distinct value, the default reference is the smallest value."""
    import pandas as pd

    from formulae import design_matrices

    fn, dtype, icept = case["fn"], case["dtype"], case["intercept"]
    n = 12
    pos = [(i * 5 + 1) % 3 for i in range(n)]
    if dtype.startswith("datetime"):
        vals = pd.to_datetime(["2021-03-01", "2020-01-15", "2022-07-31"]).astype(dtype)
    elif dtype.startswith("timedelta"):
        vals = pd.to_timedelta([3, 1, 20], unit="D").astype(dtype)
    elif dtype == "float32":
        vals = pd.Index([0.1, 2.5, 1.75], dtype="float32")
    else:
        vals = pd.Index([True, False, True])
    col = pd.Series([vals[p_] for p_ in pos])
    frame = pd.DataFrame({"y": np.arange(n, dtype=float), "d": col, "x": np.linspace(-1, 1, n)})
    formula = f"y ~ {'1' if icept else '0'} + {fn}(d)"
    ctx.count(core.canon(case), True, ["dtype:" + dtype, "design:" + fn], sample=dict(case, formula=formula), stratum="dtype")
    try:
        with core.Guard():
            x = np.asarray(design_matrices(formula, frame).common.design_matrix, dtype=float)
    except Exception as e:  # pylint: disable=broad-except
        ctx.fail("dtype", case, f"{formula!r} on a {dtype} column raised {type(e).__name__}: {e}", core.exc_key(e))
        return
    distinct = sorted(set(col.tolist()))
    ind = np.column_stack([(col == v).to_numpy(dtype=float) for v in distinct])
    nl = len(distinct)
    if x.shape != (n, nl) or rc.rank(x) != nl or rc.rank(np.column_stack([x, ind])) != nl:
        ctx.fail("dtype", case, f"{formula!r} on a {dtype} column with {nl} distinct values: matrix of shape {x.shape} and rank "
                 f"{rc.rank(x) if x.size else 0} does not span the {nl} level indicators", "span")
    elif fn in ("C", "T"):
        want = ind if not icept else np.column_stack([np.ones(n), ind[:, 1:]])
        if not np.array_equal(x, want):
            ctx.fail("dtype", case, f"{formula!r} on a {dtype} column: columns are not the indicators of the values (reference = smallest value)", "indicators")


def judge(ctx, case):
    if ctx.skip():
        return
    k = case.get("kind")
    if k == "dtype":
        judge_dtype(ctx, case)
    elif k == "object":
        judge_object(ctx, case)
    elif k == "levels":
        judge_levels(ctx, case)
    elif k == "badref":
        judge_badref(ctx, case)
    else:
        judge_swap(ctx, case)


def replay(ctx, case):
    judge(ctx, case)


def _object_cases():
    for n in range(1, 13):
        for ref in [None] + list(range(n)):
            for enc in ("Treatment", "Sum"):
                for kind in ("str", "int", "int0", "float"):
                    yield {"kind": "object", "n": n, "ref": ref, "encoding": enc, "levels_kind": kind}


def _levels_cases(maxn):
    for n in range(2, maxn + 1):
        for perm in itertools.permutations(range(n)):
            for fn in ("C", "T", "S", "C(T", "C(C", "C(S", "C(T*", "C(S*", "C(C)Sum", "C(C)Treatment"):
                for ic in (True, False):
                    for is_int in (False, True):
                        yield {"kind": "levels", "fn": fn, "perm": list(perm), "n": n, "int": is_int, "intercept": ic, "ref": None}
                        if not is_int and n <= 3:
                            for dtype, ds in (("cat", 0), ("cat", 1), ("ordcat", 0)):
                                yield {"kind": "levels", "fn": fn, "perm": list(perm), "n": n, "int": False, "intercept": ic, "ref": None,
                                       "dtype": dtype, "dtype_seed": ds}
                        if n >= 3 and perm[0] < perm[1]:
                            yield {"kind": "levels", "fn": fn, "perm": list(perm), "n": n, "int": is_int, "intercept": ic, "ref": 1}
    for f in ["y ~ T(f, 'zz')", "y ~ S(f, 'zz')", "y ~ C(f, Treatment('zz'))", "y ~ C(f, Sum('zz'))"]:
        yield {"kind": "badref", "formula": f}


def _enum_worker(ctx, arg):
    shard, n, maxn = arg
    for i, c in enumerate(itertools.chain(_object_cases(), _levels_cases(maxn))):
        if i % n == shard:
            judge(ctx, c)


def _swap_worker(ctx, arg):
    shard, n = arg
    core.run_hypothesis(ctx, swap_case(), judge, n, shard=shard)


def run(ctx):
    quick = ctx.tier == "quick"
    ns = core.NPROC
    maxn = 4 if quick else 5
    ctx.parallel(_enum_worker, [(k, ns, maxn) for k in range(ns)])
    for dtype in ("datetime64[ns]", "datetime64[s]", "timedelta64[ns]", "float32", "bool"):
        for fn in ("C", "T", "S"):
            for icept in (True, False):
                judge(ctx, {"kind": "dtype", "dtype": dtype, "fn": fn, "intercept": icept})
    ctx.exhaustive["Treatment/Sum objects for 1..12 levels x every reference/omit"] = {"complete": True}
    ctx.exhaustive[f"permutations of <= {maxn} levels as levels= for C/T/S, with/without intercept, str and int data"] = {"complete": True}
    per = 400 if quick else 9000
    ctx.parallel(_swap_worker, [(k, per) for k in range(ns)])
