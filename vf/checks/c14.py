"""C14 — stateful transforms satisfy their mathematical contracts."""
import numpy as np
import pandas as pd
from hypothesis import strategies as st

from vf import core
from vf import refcoding as rc

PROPERTY = "C14"
RULE = (
    "cases = (transform, parameters, training vector, later vector): vectors of 2-80 values drawn as integers mapped to "
    "floats (continuous, heavy ties, offsets 1e3-1e7, small integers, constant except one value); center / scale / "
    "standardize; bs with df from its minimum to +6, degree 0-5, intercept, explicit knots (sorted or not), bounds "
    "inside / outside the data, and invalid combinations; poly degree 1-6 (< number of distinct values), raw; later "
    "vectors include values outside the training range for center / scale / poly; distinct = distinct case; "
    "non-trivial = ties or offset >= 1e4 or n <= degree + 3, or a spline with at least one inner knot"
)
ASSUMPTIONS = [
    "tolerances: mean/sd 1e-9 relative to the magnitude of the data, spline non-negativity 1e-12, partition of unity "
    "1e-9, polynomial orthonormality 1e-6 (offsets for poly are limited to 1e4: the recurrence works on uncentred x)",
    "poly is only asked for degree < number of distinct values; scale only for non-constant vectors",
]


@st.composite
def vector(draw, min_n=2, max_n=80, max_offset=7, tiny=False):
    n = draw(st.integers(min_n, max_n))
    kind = draw(st.sampled_from(["continuous", "continuous", "ties", "offset", "smallint", "almost_constant"] + (["tiny_unit", "huge_unit"] if tiny else [])))
    if kind == "continuous":
        v = [t / 1000.0 for t in draw(st.lists(st.integers(-5000, 5000), min_size=n, max_size=n))]
    elif kind == "ties":
        v = [t / 2.0 for t in draw(st.lists(st.integers(-4, 4), min_size=n, max_size=n))]
    elif kind == "offset":
        off = 10.0 ** draw(st.integers(3, max_offset))
        v = [off + t / 1000.0 for t in draw(st.lists(st.integers(-5000, 5000), min_size=n, max_size=n))]
    elif kind == "smallint":
        v = [float(t) for t in draw(st.lists(st.integers(0, 5), min_size=n, max_size=n))]
    elif kind in ("tiny_unit", "huge_unit"):
        # the same kind of data recorded in a very small or very large unit (seconds as years, metres as nanometres)
        unit = draw(st.sampled_from([1e-9, 1e-12, 1e-15])) if kind == "tiny_unit" else draw(st.sampled_from([1e9, 1e12]))
        v = [unit * t for t in draw(st.lists(st.integers(-5000, 5000), min_size=n, max_size=n))]
    else:
        v = [1.5] * n
        v[draw(st.integers(0, n - 1))] = 4.0
    return {"kind": kind, "values": v}


@st.composite
def case_strategy(draw):
    which = draw(st.sampled_from(["center", "scale", "bs", "bs", "bs", "bs_invalid", "poly", "poly"]))
    if which in ("center", "scale"):
        x = draw(vector(tiny=True))
        later = draw(vector(min_n=1, max_n=10))
        return {"transform": which, "alias": draw(st.booleans()), "x": x, "later": later["values"]}
    if which == "poly":
        x = draw(vector(min_n=3, max_offset=4))
        later = draw(vector(min_n=1, max_n=10, max_offset=3))
        return {"transform": "poly", "x": x, "degree": draw(st.integers(1, 6)), "raw": draw(st.integers(0, 3)) == 0, "later": later["values"]}
    x = draw(vector(min_n=3))
    degree = draw(st.integers(0, 5))
    intercept = draw(st.booleans())
    c = {"transform": which, "x": x, "degree": degree, "intercept": intercept}
    mindf = degree + 1 - (0 if intercept else 1)
    mode = draw(st.sampled_from(["df", "df", "knots", "df_and_knots", "bounds"]))
    c["mode"] = mode
    if mode in ("df", "bounds", "df_and_knots"):
        c["df"] = max(1, mindf) + draw(st.integers(0, 6))
    if mode in ("knots", "df_and_knots"):
        c["knot_q"] = sorted(draw(st.lists(st.integers(5, 95), min_size=0, max_size=4, unique=True)))
        c["knots_unsorted"] = draw(st.booleans())
    if mode == "bounds":
        c["lower"] = draw(st.sampled_from([None, "below", "min"]))
        c["upper"] = draw(st.sampled_from([None, "above", "max"]))
    if which == "bs_invalid":
        c["invalid"] = draw(st.sampled_from(["df_too_small", "negative_degree", "float_degree", "df_knots_inconsistent", "knots_outside", "lower_gt_upper",
                                              "neither", "knots_2d", "float_df", "numpy_float_df", "lower_above_data", "upper_below_data"]))
    c["later_frac"] = draw(st.lists(st.integers(0, 100), min_size=1, max_size=8))
    c["int_dtype"] = draw(st.booleans())
    return c


def magnitude(x):
    return max(1.0, float(np.max(np.abs(x))))


def judge(ctx, case):
    if ctx.skip():
        return
    from formulae.transforms import TRANSFORMS

    t = case["transform"]
    x = np.asarray(case["x"]["values"], dtype=float)
    if case["x"]["kind"] == "smallint" and case.get("int_dtype"):
        x = x.astype(np.int64)  # counts, ages, days: integer-typed input
    n = len(x)
    kind = case["x"]["kind"]
    off = kind == "offset" and np.min(np.abs(x)) >= 1e4 - 10
    classes = ["transform:" + t, "vector:" + kind]

    def count(nt):
        ctx.count(core.canon(case), nt, classes, sample=case, stratum="transform:" + t)

    if t in ("center", "scale"):
        name = t if not case["alias"] or t == "center" else "standardize"
        nd = len(set(x.tolist()))
        count(kind == "ties" or off)
        if t == "scale" and nd < 2:
            return
        obj = TRANSFORMS[name]()
        try:
            with core.Guard():
                out = np.asarray(obj(pd.Series(x)), dtype=float)
                later = np.asarray(case["later"], dtype=float)
                out2 = np.asarray(obj(pd.Series(later)), dtype=float)
        except Exception as e:  # pylint: disable=broad-except
            ctx.fail(t, case, f"{name} raised {type(e).__name__}: {e}", core.exc_key(e))
            return
        tol = 1e-9 * magnitude(x)
        if abs(out.mean()) > (tol if t == "center" else 1e-9 * magnitude(x) / x.std()):
            ctx.fail(t, case, f"{name}(x): mean of the result is {out.mean()}", "mean")
        if t == "scale" and abs(out.std() - 1) > 1e-9:
            ctx.fail(t, case, f"{name}(x): population standard deviation of the result is {out.std()}", "sd")
        want2 = later - x.mean() if t == "center" else (later - x.mean()) / x.std()
        if out2.shape != want2.shape or not np.allclose(out2, want2, rtol=1e-9, atol=1e-9 * magnitude(x) / (1 if t == "center" else x.std())):
            ctx.fail(t, case, f"{name}: later data are not transformed by the affine map fixed on the training data", "later_data")
        # the same through a design: every column a term derives from the call — also the lower-order terms the
        # library adds on its own for a three-way interaction — carries the training map on later data
        if n >= 8 and case.get("alias") is not None:
            from formulae import design_matrices

            a = ["p", "q"] * n
            b = ["r", "r", "s", "s"] * n
            frame = pd.DataFrame({"y": np.arange(n, dtype=float), "x": x, "a": a[:n], "b": b[:n]})
            new = pd.DataFrame({"x": later, "a": a[1: len(later) + 1], "b": b[2: len(later) + 2]})
            tol2 = 1e-9 * magnitude(x) / (1 if t == "center" else x.std())
            for formula in (f"y ~ {name}(x)", f"y ~ {name}(x) + a:b:{name}(x)", f"y ~ 0 + a:{name}(x)", f"y ~ (0 + {name}(x) | a)", f"y ~ ({name}(x) | b)"):
                try:
                    with core.Guard():
                        dm = design_matrices(formula, frame)
                        part = dm.group if "|" in formula else dm.common  # the term may be a group-specific effect
                        got = np.asarray(part.evaluate_new_data(new).design_matrix, dtype=float)
                        labels = [l for term in part.terms.values() for l in term.labels]
                except Exception as e:  # pylint: disable=broad-except
                    ctx.fail(t, case, f"{formula!r} raised {type(e).__name__}: {e}", "design:" + core.exc_key(e))
                    continue
                for j, lab in enumerate(labels):
                    if f"{name}(x)" not in lab:
                        continue
                    rows = np.abs(got[:, j]) > tol2
                    rows &= np.abs(want2) > tol2
                    if not np.allclose(got[rows, j], want2[rows], rtol=1e-9, atol=tol2):
                        ctx.fail(t, case, f"{formula!r}: column {lab!r} on later data does not carry the affine map fixed on the training data", "design:later_data")
                        break
        return

    if t == "poly":
        d = case["degree"]
        nd = len(set(x.tolist()))
        count(kind == "ties" or off or n <= d + 3)
        if nd <= d:
            ctx.classes["unjudged:degree>=distinct_values"] += 1
            return
        xs = (x - x.mean()) / x.std()
        vand = np.column_stack([xs ** k for k in range(d + 1)])
        vand = vand / np.sqrt((vand ** 2).sum(axis=0))
        # the recurrence runs on the data as given: an offset costs further digits on top of the conditioning of the basis
        if np.linalg.cond(vand) * max(1.0, abs(float(x.mean())) / float(x.std())) > 1e10:
            # e.g. six points within 0.005 of each other and one at 5: degree 6 is not resolvable in double precision
            ctx.classes["unjudged:polynomial_basis_ill_conditioned"] += 1
            return
        obj = TRANSFORMS["poly"]()
        try:
            with core.Guard():
                # the vector arrives as a numpy array or as a pandas Series (a data column), `raw` by name or by position
                xin = pd.Series(x) if len(case["later"]) % 2 else x
                p = np.asarray((obj(xin, d, True) if len(case["later"]) % 3 == 0 else obj(xin, d, raw=True)) if case["raw"] else obj(xin, d), dtype=float)
        except Exception as e:  # pylint: disable=broad-except
            ctx.fail("poly", case, f"poly(x, {d}, raw={case['raw']}) raised {type(e).__name__}: {e}", core.exc_key(e))
            return
        if p.shape != (n, d):
            ctx.fail("poly", case, f"poly(x, {d}) has shape {p.shape}", "shape")
            return
        later = np.asarray(case["later"], dtype=float)
        if case["raw"]:
            want = np.column_stack([x ** k for k in range(1, d + 1)])
            if not np.array_equal(p, want):
                ctx.fail("poly", case, f"poly(x, {d}, raw=True) is not x..x^{d}", "raw")
            p2 = np.asarray(obj(later, d, raw=True), dtype=float)
            if not np.array_equal(p2, np.column_stack([later ** k for k in range(1, d + 1)])):
                ctx.fail("poly", case, "poly(raw=True) on later data is not the powers of the later data", "raw_later")
            return
        g = p.T @ p
        if not np.allclose(g, np.eye(d), atol=1e-6):
            ctx.fail("poly", case, f"poly(x, {d}): columns are not orthonormal (max deviation {np.abs(g - np.eye(d)).max():.2e})", "orthonormal")
        if not np.allclose(p.sum(axis=0), 0, atol=1e-6 * np.sqrt(n)):
            ctx.fail("poly", case, f"poly(x, {d}): columns are not orthogonal to the constant", "constant")
        xc = (x - x.mean()) / x.std()
        v = np.column_stack([np.ones(n)] + [xc ** k for k in range(1, d + 1)])
        if rc.rank(np.column_stack([v, np.ones((n, 1)), p]), tol=1e-7) != d + 1:
            ctx.fail("poly", case, f"poly(x, {d}): [1 P] does not span the same space as [1 x .. x^{d}]", "span")
        state = (dict(obj.alpha), dict(obj.norms2))
        both = np.concatenate([x[: min(3, n)], later])
        p2 = np.asarray(obj(both, d), dtype=float)
        if (dict(obj.alpha), dict(obj.norms2)) != state:
            ctx.fail("poly", case, "poly: remembered alpha / norms changed when later data were evaluated", "state")
        if not np.allclose(p2[: min(3, n)], p[: min(3, n)], rtol=1e-9, atol=1e-12):
            ctx.fail("poly", case, "poly: training points evaluated again among later data give other values", "later_data")
        return

    # ---- B-splines ---------------------------------------------------------------------------------------
    degree, intercept = case["degree"], case["intercept"]
    kw = {"degree": degree, "intercept": intercept}
    mode = case["mode"]
    lo, hi = float(x.min()), float(x.max())
    knots = None
    if "knot_q" in case:
        knots = [float(np.percentile(x, q)) for q in case["knot_q"]]
        if case.get("knots_unsorted"):
            knots = knots[::-1]
        kw["knots"] = knots
    if mode == "df_and_knots":
        kw["df"] = len(knots) + degree + (1 if intercept else 0)
    elif "df" in case and mode != "knots":
        kw["df"] = case["df"]
    if mode == "bounds":
        if case["lower"] == "below":
            kw["lower_bound"] = lo - 1.0
        elif case["lower"] == "min":
            kw["lower_bound"] = lo
        if case["upper"] == "above":
            kw["upper_bound"] = hi + 2.0
        elif case["upper"] == "max":
            kw["upper_bound"] = hi
    lb, ub = kw.get("lower_bound", lo), kw.get("upper_bound", hi)
    obj = TRANSFORMS["bs"]()
    if t == "bs_invalid":
        inv = case["invalid"]
        kw = {"degree": degree, "intercept": intercept, "df": (case.get("df") or degree + 2)}
        if inv == "df_too_small":
            kw["df"] = max(0, degree - (0 if intercept else 1)) if degree - (0 if intercept else 1) >= 1 else None
            if kw["df"] is None:
                kw["df"] = 1
                kw["degree"] = 3
                kw["intercept"] = False
        elif inv == "negative_degree":
            kw["degree"] = -1
        elif inv == "float_degree":
            kw["degree"] = 2.5
        elif inv == "df_knots_inconsistent":
            kw["knots"] = [float(np.median(x))] * 1
            kw["df"] = degree + 4 + (1 if intercept else 0)
        elif inv == "knots_outside":
            kw.pop("df")
            kw["knots"] = [hi + 5.0]
        elif inv == "lower_gt_upper":
            kw["lower_bound"], kw["upper_bound"] = hi + 1.0, lo - 1.0
        elif inv == "neither":
            kw.pop("df")
        elif inv == "knots_2d":
            kw.pop("df")
            kw["knots"] = [[float(np.median(x))]]
        elif inv == "float_df":
            kw["df"] = degree + 2.5
        elif inv == "numpy_float_df":
            kw["df"] = np.float64(degree + 2.5)  # a fraction is no number of columns, whatever type carries it
        elif inv in ("lower_above_data", "upper_below_data"):
            # only one bound given, on the wrong side of the data, and no inner knot that could trip another check
            kw["df"] = max(1, degree + (1 if intercept else 0))
            if kw["df"] < 1 or (degree == 0 and not intercept):
                kw["degree"], kw["intercept"], kw["df"] = 2, True, 3
            if inv == "lower_above_data":
                kw["lower_bound"] = hi + 1.5
            else:
                kw["upper_bound"] = lo - 1.5
        classes.append("invalid:" + inv)
        count(True)
        try:
            with core.Guard():
                obj(x, **kw)
        except ValueError:
            # refused; the same object asked again refuses again (a refusal leaves nothing behind)
            try:
                with core.Guard():
                    obj(x, **kw)
            except Exception:  # pylint: disable=broad-except
                return
            ctx.fail("bs_invalid", dict(case, kwargs={k: str(v) for k, v in kw.items()}), f"bs(x, {kw}) is refused the first time and accepted when the same object is "
                     "called again", inv + ":second_call")
            return
        except Exception as e:  # pylint: disable=broad-except
            ctx.fail("bs_invalid", dict(case, kwargs=kw), f"bs(x, {kw}) raised {type(e).__name__} instead of ValueError: {e}", inv + ":" + type(e).__name__)
            return
        ctx.fail("bs_invalid", dict(case, kwargs={k: str(v) for k, v in kw.items()}), f"bs(x, {kw}) with invalid parameters was accepted", inv)
        return
    if knots is not None:
        n_inner = len(knots)
        inner = np.asarray(knots, dtype=float)
    else:
        n_inner = kw["df"] - (degree + 1) + (0 if intercept else 1)
        q = np.linspace(0, 1, n_inner + 2)[1:-1]
        inner = np.percentile(x, 100 * q) if n_inner > 0 else np.array([])
    classes.append("inner_knots:%s" % ("0" if n_inner == 0 else ("1" if n_inner == 1 else "2+")))
    count(kind == "ties" or off or n_inner >= 1)
    if lb > ub or (len(inner) and (inner.min() < lb or inner.max() > ub)):
        return
    if lb == ub:
        ctx.classes["unjudged:constant_vector_for_bs"] += 1  # no interval between the boundary knots
        return
    full = dict(case, kwargs={k: (v if not isinstance(v, float) else float(v)) for k, v in kw.items()})
    try:
        with core.Guard():
            b = np.asarray(obj(x, **kw), dtype=float)
    except Exception as e:  # pylint: disable=broad-except
        ctx.fail("bs", full, f"bs(x, {kw}) raised {type(e).__name__}: {e}", core.exc_key(e))
        return
    want_cols = n_inner + degree + (1 if intercept else 0)
    if b.shape != (n, want_cols):
        ctx.fail("bs", full, f"bs(x, {kw}) has shape {b.shape}, expected ({n}, {want_cols})", "shape")
        return
    if not np.isfinite(b).all():
        ctx.fail("bs", full, f"bs(x, {kw}) has non-finite entries", "finite")
        return
    inside = (x >= lb) & (x <= ub)
    if (b[inside] < -1e-12).any():
        ctx.fail("bs", full, f"bs(x, {kw}) has negative entries ({b[inside].min()})", "negative")
    if intercept:
        sums = b.sum(axis=1)
        bad = inside & (np.abs(sums - 1) > 1e-9)
        if bad.any():
            ctx.fail("bs", dict(full, boundary_knot=bool(len(inner) and (np.any(inner == lb) or np.any(inner == ub))),
                                bad_x=sorted(set(x[bad].tolist()))[:4], bounds=[lb, ub]),
                     f"bs(x, {kw}): rows at x = {sorted(set(x[bad].tolist()))[:4]} sum to {sums[bad][:4].tolist()}, not 1", "partition_of_unity")
    # later data use the training knots
    fr = np.clip(np.asarray(case["later_frac"], dtype=float) / 100.0, 0.01, 0.99)  # strictly between the boundary knots
    later = lb + fr * (ub - lb)
    both = np.concatenate([x[: min(3, n)], later])
    knots_before = np.array(obj._knots, copy=True)  # pylint: disable=protected-access
    try:
        with core.Guard():
            b2 = np.asarray(obj(both, **kw), dtype=float)
    except Exception as e:  # pylint: disable=broad-except
        ctx.fail("bs", full, f"bs on later data raised {type(e).__name__}: {e}", "later:" + core.exc_key(e))
        return
    if not np.array_equal(knots_before, obj._knots):  # pylint: disable=protected-access
        ctx.fail("bs", full, "bs: knots changed when later data were evaluated", "state")
    if b2.shape != (len(both), want_cols) or not np.allclose(b2[: min(3, n)], b[: min(3, n)], rtol=1e-12, atol=1e-12):
        ctx.fail("bs", full, "bs: training points evaluated again among later data give other values", "later_data")
    elif intercept:
        s2 = b2[min(3, n):].sum(axis=1)
        edge = np.isin(later, [lb, ub])
        if (np.abs(s2[~edge] - 1) > 1e-9).any():
            ctx.fail("bs", full, "bs: later points inside the boundary knots do not sum to 1", "later_partition")


def replay(ctx, case):
    judge(ctx, case)


def _kf_boundary_knot(case, clause, detail):  # pylint: disable=unused-argument
    """KF-C14-1: an inner knot coincides with a boundary knot and the failing rows are exactly at that bound."""
    if not case.get("boundary_knot"):
        return False
    return all(v in case.get("bounds", []) for v in case.get("bad_x", [None]))


KNOWN_CLASSES = {"inner_knot_equals_boundary": _kf_boundary_knot}


def _worker(ctx, arg):
    shard, n = arg
    core.run_hypothesis(ctx, case_strategy(), judge, n, shard=shard)


def run(ctx):
    per = 700 if ctx.tier == "quick" else 20000
    ctx.parallel(_worker, [(k, per) for k in range(core.NPROC)])
