"""C01 — formula grammar: precedence, associativity, nothing silently ignored.

Domains: (a) every token sequence up to a length bound over a fixed alphabet; (b) grammar
generated sentences of unbounded depth rendered with random whitespace and redundant
parentheses; (c) near-miss mutations of (b); (d) character-level strings.
Oracle: vf.refparse (reference tokeniser + precedence-climbing parser, strict and loose
variants) and metamorphic relations on accepted strings.
"""
import functools

import numpy as np
import warnings
import random
import itertools

from hypothesis import assume
from hypothesis import strategies as st

from vf import core
from vf import refparse as rp
from vf.observe import impl_model, describe_model

PROPERTY = "C01"
RULE = (
    "cases = formula strings: (a) all token sequences up to a length bound over a 28-symbol alphabet (25 tokens, an illegal character, an opening quote, an opening back-quote) joined by "
    "single spaces, (b) sentences generated from the grammar (unbounded depth) rendered with drawn whitespace and "
    "redundant parentheses, (c) near-miss mutations of those (extra token, dropped closer, second ~, a ~ nested in parentheses, an earlier variable repeated with a level, dropped "
    "operand), (d) character-level strings, (e) calls whose argument is an operator expression (signed and chained powers, comparisons in a row, "
    "random expression trees) next to the same call with the argument parenthesised the way it is parsed; distinct = distinct string; non-trivial = a sentence whose tree puts "
    "two operators of different precedence next to each other or chains one operator >= 3 times, or a non-sentence "
    "that has a sentence as a proper token prefix (left-over class), or a string that is not tokenisable"
)
ASSUMPTIONS = [
    "a string the reference grammar accepts may still be rejected by the library (the statement allows rejection); "
    "what is judged is: non-sentences are rejected, accepted sentences have the reference tree and the reference model",
    "for `y ~ x | g` both 'reject' and 'parse as y ~ (x | g)' are accepted (strict / loose reading of the table)",
    "redundant parentheses are only added at formula level: inside call arguments they are part of the call's name",
    "the implicit intercept is `1 +` inserted right after `~` (or in front without `~`), as documented",
]

SIGMA = ["y", "x", "g", "f", "1", "0", "2", "'a'", "~", "|", "+", "-", "*", "/", ":", "**", "(", ")", ",", "=", "==",
         "[", "]", "{", "}", "$", "`b", '"c']
JUNK = {"$", "`b", '"c'}  # symbols that are not tokens: an illegal character, an opening back-quote, an opening quote
SIGMA_SMALL = ["y", "x", "f", "1", "~", "|", "+", "-", "*", ":", "**", "(", ")", ","]
TOK = {}
for _s in SIGMA:
    if _s not in JUNK:
        TOK[_s] = rp.tokenize(_s)[0]


def lib_view(s):
    from formulae.scanner import Scanner
    from formulae.parser import Parser

    out = {"tokens": None, "ast": None, "model": None}
    try:
        toks = Scanner(s).scan(add_intercept=False)
        out["tokens"] = [(t.kind, t.lexeme, t.literal) for t in toks[:-1]]
        if toks[-1].kind != "EOF":
            out["tokens"].append(("<no EOF>", "", None))
    except Exception as e:  # pylint: disable=broad-except
        out["scan_exc"] = e
    try:
        out["ast"] = rp.conv(Parser(Scanner(s).scan()).parse())
    except Exception as e:  # pylint: disable=broad-except
        out["parse_exc"] = e
    try:
        with core.Guard():
            out["model"] = impl_model(s)
    except Exception as e:  # pylint: disable=broad-except
        out["model_exc"] = e
    return out


def model_of_full(text):
    """Model of a formula in which the implicit intercept is already written."""
    from formulae.scanner import Scanner
    from formulae.parser import Parser
    from formulae.resolver import Resolver
    from formulae.terms.terms import Model

    d = Resolver(Parser(Scanner(text).scan(add_intercept=False)).parse()).resolve()
    if not isinstance(d, Model):
        d = Model(d)
    return describe_model(d)


def canon_model(m):
    resp, common, group = m
    return (resp, frozenset(frozenset(t) for t in common), frozenset((frozenset(a), frozenset(b)) for a, b in group))


PREC = {"|": 2, "==": 3, "!=": 3, "<=": 3, "<": 3, ">=": 3, ">": 3, "+": 4, "-": 4, "*": 5, "/": 5, ":": 6, "**": 7, "~": 1}


def _prec(a):
    if a[0] == "bin":
        return PREC[a[1]]
    if a[0] == "un":
        return 8
    return 9


def exercises_precedence(a):
    """Two adjacent operators of different precedence, or a chain of one operator >= 3 long."""
    found = [False]

    def walk(n, chain_op, chain_len):
        if not isinstance(n, tuple) or not n:
            return
        k = n[0]
        if k == "grp":
            walk(n[1], None, 0)
            return
        if k == "bin":
            op = n[1]
            ln = chain_len + 1 if op == chain_op else 1
            if ln >= 3:
                found[0] = True
            for ch in (n[2], n[3]):
                if ch[0] in ("bin", "un") and _prec(ch) != PREC[op] and op != "~":
                    found[0] = True
            walk(n[2], op, ln)
            walk(n[3], None, 0)
            return
        if k == "un":
            if n[2][0] == "bin":
                found[0] = True
            walk(n[2], None, 0)
            return
        if k == "call":
            for x in n[2]:
                walk(x, None, 0)
            return
        if k == "assign":
            walk(n[2], None, 0)

    walk(a, None, 0)
    return found[0]


ILLEGAL = "$#@\\^&?;"


def _junk_in_sentence(s):
    """A string that cannot be tokenised but becomes a sentence once its illegal characters are skipped
    (what a scanner that ignores unknown characters would accept)."""
    t = "".join(ch for ch in s if ch not in ILLEGAL)
    if t == s or not t.strip():
        return False
    try:
        return rp.try_parse(rp.with_intercept(rp.tokenize(t)), True) is not None
    except rp.Reject:
        return False


def judge(ctx, s, domain, ref_toks=None, expect=None):
    """Judge one string.  `ref_toks`: tokens known by construction; `expect`: dict with optional keys
    'reject' (must be rejected), 'same_as' (model that an accepted variant must have)."""
    if ctx.skip():
        return None
    try:
        rt = ref_toks if ref_toks is not None else rp.tokenize(s)
    except rp.Reject:
        rt = None
    classes = ["domain:" + domain]
    view = lib_view(s)
    accepted = view["model"] is not None
    case = {"formula": s, "domain": domain}

    if rt is None:
        ctx.count(s, _junk_in_sentence(s), classes + ["verdict:not_tokenisable"], stratum=domain + "/not_tokenisable", distinct=domain == "tokens")
        if accepted:
            ctx.fail("accepts_nonsentence", case, f"{s!r} cannot be tokenised by the grammar but is accepted as {view['model']}", "lexical")
        return None
    if view["tokens"] is not None and accepted:
        # lexer conservation: the scanner's lexemes are the input's tokens (nothing dropped, merged or invented) and
        # literals carry the value their text denotes; the names of the token kinds are the library's business
        got = [(t[1], t[2]) for t in view["tokens"]]
        want = [(t[1], t[2]) for t in rt]
        if got != want or [type(t[1]) for t in got] != [type(t[1]) for t in want]:
            ctx.fail("lexer", case, f"{s!r}: scanner lexemes/literals {got} differ from {want}", "tokens")
    try:
        rti = rp.with_intercept(rt)
        strict, loose = rp.try_parse(rti, False), rp.try_parse(rti, True)
    except rp.Reject:
        strict = loose = None

    if loose is None:
        has_prefix = False
        for k in range(len(rt) - 1, 0, -1):
            try:
                if rp.try_parse(rp.with_intercept(rt[:k]), True) is not None:
                    has_prefix = True
                    break
            except rp.Reject:
                pass
        ctx.count(s, has_prefix, classes + ["verdict:nonsentence" + ("_with_sentence_prefix" if has_prefix else "")],
                  stratum=domain + "/nonsentence", distinct=domain == "tokens")
        if accepted:
            ctx.fail("accepts_nonsentence", case, f"{s!r} is not a sentence of the grammar but is accepted as {view['model']}",
                     "leftover" if has_prefix else "malformed")
        elif view["ast"] is not None:
            # the parser let it through and only a later stage refused: still a rejection, but note it
            ctx.classes["note:nonsentence_rejected_after_parsing"] += 1
        return None

    ref = strict if strict is not None else loose
    nt = exercises_precedence(ref)
    ctx.count(s, nt, classes + ["verdict:" + ("sentence" if strict is not None else "loose_only_sentence"),
                                domain + (":accepted" if accepted else ":rejected_by_library")],
              stratum=domain + ("/accepted" if accepted else "/rejected"), distinct=domain == "tokens")
    if view["ast"] is not None and not rp.same_ast(view["ast"], ref):
        ctx.fail("tree", case, f"{s!r} parsed as {view['ast']} but its fully parenthesised form is {rp.full(ref)!r} ({ref})",
                 "strict" if strict is not None else "loose")
        return None
    if expect and expect.get("reject"):
        # only used when the reference itself says non-sentence; kept for completeness
        pass
    if not accepted:
        if view["ast"] is None and strict is not None:
            ctx.classes["note:sentence_rejected_by_parser"] += 1
        return None
    # O2: the fully parenthesised form denotes the same model
    text = rp.full(ref)
    try:
        with core.Guard():
            m2 = model_of_full(text)
    except Exception as e:  # pylint: disable=broad-except
        ctx.fail("full_form", case, f"{s!r} is accepted but its fully parenthesised form {text!r} raises {type(e).__name__}: {e}", core.exc_key(e))
        return canon_model(view["model"])
    if canon_model(m2) != canon_model(view["model"]):
        ctx.fail("full_form", case, f"{s!r} gives {view['model']} but its fully parenthesised form {text!r} gives {m2}", "model")
    return canon_model(view["model"])


def replay(ctx, case):
    if case.get("kind") == "call_value":
        judge_call_value(ctx, case)
        return
    if case.get("kind") == "variants":
        judge_variants(ctx, case)
    else:
        judge(ctx, case["formula"], case.get("domain", "replay"))


# ---- (a) exhaustive token sequences -----------------------------------------------------------------
def _exh_worker(ctx, arg):
    sigma, n, prefixes = arg
    for pre in prefixes:
        for rest in itertools.product(sigma, repeat=n - len(pre)):
            toks = pre + rest
            s = " ".join(toks)
            if JUNK.intersection(toks):
                judge(ctx, s, "tokens")
            else:
                judge(ctx, s, "tokens", [TOK[t] for t in toks])


def _exh_jobs(sigma, n, nsplit):
    if n <= 2:
        return [(sigma, n, [()])]
    pres = list(itertools.product(sigma, repeat=2))
    return [(sigma, n, pres[k::nsplit]) for k in range(nsplit)]


# ---- (b) grammar-generated sentences ------------------------------------------------------------------
NAMES = ["y", "x", "z", "g", "h", "a1", "x_2", "np.log", "f", "center", "scale"]
BINOPS_TERM = ["+", "-", "*", "/", ":", "**", "|"]
BINOPS_ALL = BINOPS_TERM + ["==", "!=", "<", "<=", ">", ">="]


def _atoms():
    var = st.sampled_from(["x", "z", "g", "h", "a1", "x_2", "w.v"]).map(lambda n: ("var", n, None))
    num = st.sampled_from(["0", "1", "2", "12", "1.5", ".5", "3.25"]).map(lambda t: rp.P(rp.tokenize(t)).primary())
    string = st.sampled_from(["'a'", '"b c"', "'it\"s'", '"x\'y"', "'a,b)'", "''"]).map(lambda t: ("lit", "str", t[1:-1], t))
    pyl = st.sampled_from([("lit", "bool", True, None), ("lit", "bool", False, None), ("lit", "NoneType", None, None)])
    bq = st.sampled_from(["`a b`", "`x-1`", "`$w`", "`y~z`"]).map(lambda t: ("bq", t))
    level = st.sampled_from([("var", "y", ("lit", "str", "a", None)), ("var", "g", ("lit", "str", "b c", "'b c'")),
                             ("var", "y", ("lit", "str", "A", '"A"'))])
    return var, num, string, pyl, bq, level


@functools.lru_cache(maxsize=None)
def expr_strategy(max_leaves=12, in_call=False):
    var, num, string, pyl, bq, level = _atoms()
    if in_call:
        leaf = st.one_of(var, var, num, string, pyl, bq)
        ops = BINOPS_ALL
    else:
        leaf = st.one_of(var, var, var, num, bq)  # `v[level]` is only a sentence as the whole response (see sentence_case)
        ops = BINOPS_TERM + ["=="]

    def extend(children):
        binary = st.tuples(st.just("bin"), st.sampled_from(ops), children, children)
        unary = st.tuples(st.just("un"), st.sampled_from(["+", "-"]), children)
        return st.one_of(binary, binary, binary, unary, call_strategy(children))

    return st.recursive(leaf, extend, max_leaves=max_leaves)


def call_strategy(children):
    callee = st.sampled_from(["f", "np.log", "center", "a.b.c", "I"]).map(lambda n: ("var", n, None))
    kw = st.tuples(st.just("assign"), st.sampled_from(["k", "df", "ref"]).map(lambda n: ("var", n, None)), children)
    def unique_keywords(items):
        seen, out = set(), []
        for a in items:
            if a[0] == "assign":
                if a[1][1] in seen:
                    continue  # a repeated keyword is not a sentence
                seen.add(a[1][1])
            out.append(a)
        return tuple(out)

    args = st.lists(st.one_of(children, children, kw), min_size=0, max_size=3).map(unique_keywords)
    plain = st.tuples(st.just("call"), callee, args)
    brace = st.tuples(st.just("call"), st.just(("var", "I", None)), st.tuples(children))
    return st.one_of(plain, plain, brace)


@functools.lru_cache(maxsize=None)
def term_strategy(max_leaves):
    """Sentences of the documented term language (accepted by the resolver), arbitrary depth."""
    var, num, string, pyl, bq, level = _atoms()
    call = call_strategy(expr_strategy(4, in_call=True))
    leaf = st.one_of(var, var, var, bq, call)
    numlit = st.sampled_from(["2", "3", "4"]).map(lambda t: ("lit", "int", int(t), None))

    def extend(ch):
        b = st.tuples(st.just("bin"), st.sampled_from(["+", "-", "*", "/", ":"]), ch, ch)
        pw = st.tuples(st.just("bin"), st.just("**"), ch, numlit)
        return st.one_of(b, b, b, pw)

    pipefree = st.recursive(leaf, extend, max_leaves=max_leaves)
    one = ("lit", "int", 1, None)
    zero = ("lit", "int", 0, None)
    lit = st.sampled_from([one, zero, ("un", "-", one)])
    lead = st.tuples(st.just("bin"), st.just("+"), lit, pipefree)
    grp = st.tuples(st.just("bin"), st.just("|"), st.one_of(pipefree, pipefree, lead, st.just(one)), pipefree)
    item = st.one_of(pipefree, pipefree, grp, lit)

    @st.composite
    def chain(draw):
        n = draw(st.integers(1, 4))
        tree = draw(item)
        for _ in range(n - 1):
            nxt = draw(item)
            op = "+" if nxt[0] == "un" or nxt == zero else draw(st.sampled_from(["+", "+", "-"]))
            if op == "-" and nxt[0] == "lit":
                nxt = one
            tree = ("bin", op, tree, nxt)
        return tree

    return chain()


def _is_intercept_literal(n):
    if n[0] == "un":
        return _is_intercept_literal(n[2])
    return n[0] == "lit" and n[1] in ("int", "float", "bool") and n[2] in (0, 1)


def _has_intercept_literal(n):
    """An intercept literal anywhere in the term expression (call arguments are not part of it)."""
    if _is_intercept_literal(n):
        return True
    if n[0] == "bin":
        return _has_intercept_literal(n[2]) or _has_intercept_literal(n[3])
    if n[0] == "un":
        return _has_intercept_literal(n[2])
    return False


def expansion_size(n):
    """Upper estimate of the number of terms a sentence expands to.  Sentences beyond a few thousand terms are not
    generated: expanding them takes the library minutes (quadratic de-duplication), and a time limit is not a verdict."""
    k = n[0]
    if k == "un":
        return expansion_size(n[2])
    if k != "bin":
        return 1
    a, b = expansion_size(n[2]), expansion_size(n[3])
    op = n[1]
    if op == "*":
        return a + b + a * b
    if op in (":", "|"):
        return a * b
    if op == "**":
        e = n[3][2] if n[3][0] == "lit" and isinstance(n[3][2], int) else 2
        total, c = 0, 1
        for i in range(1, min(max(e, 1), 6) + 1):
            c = c * (a - i + 1) // i if a - i + 1 > 0 else 0
            total += c
        return max(total, a)
    return a + b


def needs_paren(child, parent_prec, right):
    p = _prec(child)
    return p < parent_prec or (p == parent_prec and right and child[0] == "bin")


def render(a, draw, noise):
    """Minimal parentheses + optional redundant parentheses (formula level only) + drawn whitespace."""
    # layout choices come from one drawn integer (a pure function of the drawn value, so replayable):
    # hundreds of separate whitespace draws per sentence made generation ten times slower
    rnd = random.Random(draw(st.integers(0, 2**32 - 1))) if noise else None

    def sp():
        return rnd.choice(["", " ", " ", "  ", "\t", " \n "]) if noise else " "

    def tight():
        return rnd.choice(["", "", " "]) if noise else ""

    nowrap = set()
    root = a[3] if (a[0] == "bin" and a[1] == "~") else a
    spine, items = [], []
    n_ = root
    while n_[0] == "bin" and n_[1] in "+-":
        spine.append(id(n_))
        items.append(n_[3])
        n_ = n_[2]
    items.append(n_)
    if any(_has_intercept_literal(it) for it in items):
        # 0 / 1 / -1 act on the chain they are written in, in order: parentheses around a part of that chain
        # are not redundant (they change which chain the literal belongs to)
        nowrap.update(spine)

    def brace_choice(node):  # pylint: disable=unused-argument
        # {e} and I(e) are the same call: the noisy renderings pick either spelling
        return noise and rnd.randrange(2) == 0

    def wrap(text, level, node=None):
        if id(node) in nowrap:
            return text
        if noise and level == 0 and rnd.randrange(6) == 0:
            return "(" + tight() + text + tight() + ")"
        return text

    def r(n, level, brace_ok=True):
        k = n[0]
        if k == "bin":
            op = n[1]
            p = PREC[op]
            if op == "~":
                lt = r(n[2], level)
                rt_ = r(n[3], level)
                if _prec(n[2]) < 2:
                    lt = "(" + lt + ")"
                if _prec(n[3]) < 4:
                    rt_ = "(" + rt_ + ")"
                return lt + sp() + "~" + sp() + rt_
            lt = r(n[2], level)
            if needs_paren(n[2], p, False):
                lt = "(" + tight() + lt + tight() + ")"
            rt_ = r(n[3], level)
            if needs_paren(n[3], p, True):
                rt_ = "(" + tight() + rt_ + tight() + ")"
            return wrap(lt + sp() + op + sp() + rt_, level, n)
        if k == "un":
            inner = r(n[2], level)
            if n[2][0] == "bin":
                inner = "(" + inner + ")"
            gap = " " if (n[2][0] == "un" and not noise) else (tight() if n[2][0] != "un" else " ")
            return wrap(n[1] + gap + inner, level)
        if k == "call":
            if n[1] == ("var", "I", None) and len(n[2]) == 1 and n[2][0][0] != "assign" and brace_ok and brace_choice(n):
                return "{" + tight() + r(n[2][0], level + 1) + tight() + "}"
            args = []
            for x in n[2]:
                if x[0] == "assign":
                    rhs = r(x[2], level + 1)
                    if _prec(x[2]) < 4:
                        rhs = "(" + rhs + ")"
                    args.append(x[1][1] + tight() + "=" + tight() + rhs)
                else:
                    args.append(r(x, level + 1))
            return n[1][1] + tight() + "(" + tight() + ("," + sp()).join(args) + tight() + ")"
        if k == "var":
            if n[2] is None:
                return wrap(n[1], level)
            lv = n[2]
            return n[1] + tight() + "[" + tight() + (lv[3] if lv[3] is not None else lv[2]) + tight() + "]"
        if k == "lit":
            return n[3] if n[3] is not None else repr(n[2])
        if k == "bq":
            return n[1]
        raise ValueError(k)

    text = r(a, 0)
    if not (a[0] == "bin" and a[1] == "~") and _prec(a) < 4:
        # without `~` the implicit `1 +` is put in front of the whole text: a top-level `|` or comparison
        # needs its own parentheses to be the same formula with and without extra ones
        text = "(" + text + ")"
    return text


@functools.lru_cache(maxsize=None)
def rhs_strategy(leaves):
    return st.one_of(term_strategy(leaves), term_strategy(leaves), expr_strategy(leaves))


@st.composite
def sentence_case(draw, leaves):
    rhs = draw(rhs_strategy(leaves))
    assume(expansion_size(rhs) <= 1500)
    shape = draw(st.sampled_from(["y ~ rhs", "y ~ rhs", "rhs", "call ~ rhs", "level ~ rhs"]))
    if shape == "rhs":
        tree = rhs
    else:
        lhs = {"y ~ rhs": ("var", "y", None), "call ~ rhs": ("call", ("var", "np.log", None), (("var", "y", None),)),
               "level ~ rhs": ("var", "y", ("lit", "str", "a", None))}[shape]
        tree = ("bin", "~", lhs, rhs)
    base = render(tree, draw, False)
    variants = [render(tree, draw, True) for _ in range(draw(st.integers(1, 3)))]
    return {"kind": "variants", "base": base, "variants": variants, "tree": tree}


def judge_variants(ctx, case):
    base = case["base"]
    tree = _tup(case.get("tree"))
    # self-check of the reference against the generator's own precedence rule
    if tree is not None:
        try:
            got = rp.strip_groups(rp.parse(rp.tokenize(base), False))
        except rp.Reject as e:
            raise core.HarnessError(f"reference parser rejects generated sentence {base!r}: {e}") from e
        if not rp.same_ast(got, tree):
            raise core.HarnessError(f"reference parser and generator disagree on {base!r}: {got} vs {tree}")
    m0 = judge(ctx, base, "sentence")
    for v in case["variants"]:
        m = judge(ctx, v, "sentence_noisy")
        if (m is None) != (m0 is None):
            ctx.fail("variant", {"kind": "variants", "base": base, "variants": [v]},
                     f"{base!r} is {'accepted' if m0 else 'rejected'} but its whitespace/parenthesis variant {v!r} is "
                     f"{'accepted' if m else 'rejected'}", "status")
        elif m is not None and m != m0:
            ctx.fail("variant", {"kind": "variants", "base": base, "variants": [v]},
                     f"{base!r} and its whitespace/parenthesis variant {v!r} give different models: {m0} vs {m}", "model")


def _tup(x):
    if isinstance(x, list):
        return tuple(_tup(i) for i in x)
    return x


# ---- (c) near misses --------------------------------------------------------------------------------------
CLOSERS = {"RIGHT_PAREN", "RIGHT_BRACKET", "RIGHT_BRACE"}


@st.composite
def nearmiss_case(draw, leaves):
    c = draw(sentence_case(leaves))
    toks = rp.tokenize(c["base"])
    kind = draw(st.sampled_from(["append", "append", "drop_closer", "second_tilde", "nested_tilde", "repeated_with_level", "keyword_with_level", "juxtapose", "drop_operand", "unclosed_quote", "insert"]))
    lex = [t[1] for t in toks]
    if kind == "append":
        lex = lex + [draw(st.sampled_from(SIGMA + ["z", "'s'", "`q`", "%", "!", ".", "//"]))]
    elif kind == "insert":
        lex.insert(draw(st.integers(0, len(lex))), draw(st.sampled_from(SIGMA + ["%", "!", ".", "//", "@", "#", "?", "\\", ";", "&", "^"])))
    elif kind == "drop_closer":
        idx = [i for i, t in enumerate(toks) if t[0] in CLOSERS]
        if idx:
            del lex[draw(st.sampled_from(idx))]
        else:
            lex = lex + [")"]
    elif kind == "second_tilde":
        lex.insert(draw(st.integers(0, len(lex))), "~")
        if lex.count("~") < 2:
            lex.append("~")
            lex.append("x")
    elif kind == "nested_tilde":
        # a second `~` hidden inside parentheses in place of an operand (or around the whole right-hand side)
        idx = [i for i, t in enumerate(toks) if t[0] == "IDENTIFIER" and (i + 1 == len(toks) or toks[i + 1][0] != "LEFT_PAREN")]
        if idx and draw(st.integers(0, 3)) > 0:
            i = draw(st.sampled_from(idx))
            lex[i:i + 1] = ["(", lex[i], "~", draw(st.sampled_from(["v", "1", "x + z"])), ")"]
        elif "~" in lex:
            k = lex.index("~")
            lex = lex[: k + 1] + ["("] + lex[k + 1:] + ["~", "v", ")"]
        if "~" not in lex[: max(1, lex.index("(") if "(" in lex else len(lex))]:
            lex = ["y", "~"] + lex
    elif kind == "keyword_with_level":
        # f(x, k[a]=1): a level written on the name of a keyword argument
        call = draw(st.sampled_from(["f(x, k[a]=1)", "f(k['a']=x)", "np.log(x, base[b]=2)", "f(x, k=2, j[lo]=z)"]))
        if "~" not in lex:
            lex = ["y", "~"] + lex
        lex = lex + ["+"] + [t_[1] for t_ in rp.tokenize(call)]
    elif kind == "repeated_with_level":
        # a variable that already occurs, written once more with a level: v[level] is only the whole response
        idx = [i for i, t in enumerate(toks) if t[0] == "IDENTIFIER" and (i + 1 == len(toks) or toks[i + 1][0] not in ("LEFT_PAREN", "LEFT_BRACKET"))]
        v = lex[draw(st.sampled_from(idx))] if idx else "x"
        if "~" not in lex:
            lex = ["y", "~"] + lex
        lex = lex + [draw(st.sampled_from(["+", ":", "*", "/"])), v, "[", draw(st.sampled_from(["a", "'a'", '"a b"'])), "]"]
    elif kind == "juxtapose":
        lex.insert(draw(st.integers(0, len(lex))), draw(st.sampled_from(["x", "1", "'a'", "f"])))
    elif kind == "drop_operand":
        idx = [i for i, t in enumerate(toks) if t[0] in ("IDENTIFIER", "NUMBER", "STRING", "BQNAME")]
        if idx:
            del lex[draw(st.sampled_from(idx))]
    elif kind == "unclosed_quote":
        # an opening quote that is never closed - also one that is "closed" by the other quotation mark
        junk = draw(st.sampled_from(["'abc", '"abc', "`abc", "'abc\"", "\"abc'", "'abc`"]))
        idx = [i for i, t in enumerate(toks) if t[0] == "IDENTIFIER" and (i + 1 == len(toks) or toks[i + 1][0] not in ("LEFT_PAREN", "LEFT_BRACKET"))]
        if idx and draw(st.booleans()):
            lex[draw(st.sampled_from(idx))] = junk  # in the place of an operand, where a string would be a sentence
        else:
            lex.insert(draw(st.integers(0, len(lex))), junk)
    return {"formula": " ".join(lex), "domain": "nearmiss:" + kind}


def judge_case(ctx, case):
    if case.get("kind") == "call_value":
        judge_call_value(ctx, case)
        return
    if case.get("kind") == "variants":
        judge_variants(ctx, case)
    else:
        judge(ctx, case["formula"], case["domain"])


# ---- (d) character level -----------------------------------------------------------------------------------
CHARS = "xyzgf01259 \t()[]{}+-*/:|~,='\"`._%!<>$#@\\\n^&?;"


def char_case():
    raw = st.text(alphabet=CHARS, min_size=1, max_size=14).map(lambda s: {"formula": s, "domain": "chars"})

    @st.composite
    def mutated(draw):
        c = draw(sentence_case(6))
        s = c["base"]
        for _ in range(draw(st.integers(1, 2))):
            i = draw(st.integers(0, len(s)))
            if draw(st.booleans()) and s:
                i = min(i, len(s) - 1)
                s = s[:i] + s[i + 1 :]
            else:
                s = s[:i] + draw(st.sampled_from(list(CHARS))) + s[i:]
        return {"formula": s or "x", "domain": "chars_mutated"}

    return st.one_of(raw, mutated())


# ---- (e) values of call arguments ------------------------------------------------------------------------------
@st.composite
def call_value_case(draw):
    from vf.checks import c12

    kind = draw(st.sampled_from(["tree", "tree", "chain", "comparisons", "powers"]))
    if kind == "powers":
        # a sign in front of a power, powers in a row: the unary sign is above ** and ** is left-associative
        parts = [draw(st.sampled_from(["x", "z", "w", "2", "1.5", "(x + 1)"]))]
        for _ in range(draw(st.integers(1, 2))):
            parts.append(draw(st.sampled_from(["2", "0.5", "3", "z", "-1", "- 2", "w"])))
        text = draw(st.sampled_from(["-", "- ", "+", "", "-", "3 * -", "w - -"])) + " ** ".join(parts)
        if draw(st.booleans()):
            text = text + draw(st.sampled_from([" + z", " * 2", " - 1", " > 0"]))
        return {"kind": "call_value", "text": text, "wrapper": draw(st.sampled_from(["I", "brace", "probe"]))}
    if kind == "tree":
        t = draw(c12.TREE)
    elif kind == "chain":
        t = draw(c12.chain())
    else:
        t = None
    seed = draw(st.integers(0, 2**20))
    if t is not None:
        text = c12.render(c12._tup(t), random.Random(seed))  # pylint: disable=protected-access
    else:
        # comparison operators in a row: binary and left-associative in the formula grammar
        ops = [draw(st.sampled_from(c12.CMP)) for _ in range(draw(st.integers(2, 3)))]
        atoms = [draw(st.sampled_from(["x", "z", "w", "1", "2", "1.5", "0.5"])) for _ in range(len(ops) + 1)]
        text = atoms[0] + "".join(f" {o} {a_}" for o, a_ in zip(ops, atoms[1:]))
    return {"kind": "call_value", "text": text, "wrapper": draw(st.sampled_from(["I", "brace", "probe"]))}


def judge_call_value(ctx, case):
    """`I(e)` and `I(e fully parenthesised under the documented precedence)` are the same column: what a call computes
    follows the parse tree of its arguments (unary sign above **, binary operators left-associative)."""
    from vf.checks import c12

    text, wrapper = case["text"], case["wrapper"]
    call = {"probe": f"probe({text})", "I": f"I({text})", "brace": "{" + text + "}"}[wrapper]
    try:
        ast_ = rp.parse(rp.tokenize(call), False)
    except rp.Reject:
        ctx.count(call, False, ["call_value:not_a_sentence"])
        return
    deep = rp.full_deep(ast_)
    ctx.count(call, deep.replace(" ", "") != call.replace(" ", ""), ["call_value:" + wrapper], sample={"formula": f"y ~ 0 + {call}", "parenthesised": deep},
              stratum="call_value")
    res = []
    for c_ in (call, deep):
        rec = c12.Recorder()
        try:
            with core.Guard():
                with warnings.catch_warnings():
                    warnings.simplefilter("ignore")
                    m = np.asarray(c12.lib_design(f"y ~ 0 + {c_}", rec).common.design_matrix, dtype=float)
            res.append(("ok", m, rec.log))
        except Exception as e:  # pylint: disable=broad-except
            res.append(("exc", type(e).__name__, None))
    a, b = res
    full = dict(case, formula=f"y ~ 0 + {call}", parenthesised=f"y ~ 0 + {deep}")
    if a[0] != b[0]:
        ctx.fail("call_value", full, f"'y ~ 0 + {call}' {'builds' if a[0] == 'ok' else 'raises ' + a[1]} but its fully parenthesised form "
                 f"'y ~ 0 + {deep}' {'builds' if b[0] == 'ok' else 'raises ' + b[1]}", "status")
    elif a[0] == "ok" and (a[1].shape != b[1].shape or not np.array_equal(a[1], b[1], equal_nan=True) or a[2] != b[2]):
        ctx.fail("call_value", full, f"'y ~ 0 + {call}' and its fully parenthesised form 'y ~ 0 + {deep}' are different columns: "
                 f"{a[1][:3].ravel().tolist()} vs {b[1][:3].ravel().tolist()}", "value")


def _hyp_worker(ctx, arg):
    which, shard, n, leaves = arg
    if which == "call_value":
        core.run_hypothesis(ctx, call_value_case(), judge_case, n, shard=shard, salt=4)
        return
    if which == "sentence":
        core.run_hypothesis(ctx, sentence_case(leaves), judge_case, n, shard=shard, salt=1)
    elif which == "nearmiss":
        core.run_hypothesis(ctx, nearmiss_case(leaves), judge_case, n, shard=shard, salt=2)
    else:
        core.run_hypothesis(ctx, char_case(), judge_case, n, shard=shard, salt=3)


def fuzz_campaign(ctx, procs, runs):
    """Coverage-guided part (thorough tier): atheris subprocesses with the C01 oracle inside the target."""
    import os
    import pickle
    import shutil
    import subprocess
    import sys
    import tempfile

    try:
        import atheris  # noqa: F401  pylint: disable=unused-import,import-outside-toplevel
    except Exception as e:  # pylint: disable=broad-except
        ctx.notes.append(f"coverage-guided campaign skipped: atheris not importable ({type(e).__name__}); run tools/setup.sh")
        return
    work = tempfile.mkdtemp(prefix="c01fuzz.", dir=os.path.join(core.HERE, "evidence"))
    try:
        jobs = []
        for k in range(procs):
            out = os.path.join(work, f"part{k}.pkl")
            corpus = os.path.join(work, f"corpus{k}")
            os.makedirs(corpus)
            if k % 2:  # half of the campaigns start from a few valid sentences, half from an empty corpus
                for i, seed_text in enumerate([b"\x00\x0d\x01", b"\x00\x0d\x15\x01\x0e\x02\x16", b"\x00\x0d\x23\x15\x01\x16"]):
                    with open(os.path.join(corpus, f"s{i}"), "wb") as fh:
                        fh.write(seed_text)
            jobs.append((out, subprocess.Popen([sys.executable, "-W", "ignore", "-m", "vf.fuzz_c01", out, str(ctx.seed * 100 + k + 1), str(runs), corpus],
                                               stdout=subprocess.DEVNULL, stderr=subprocess.DEVNULL, cwd=core.HERE)))
        done = 0
        for out, proc in jobs:
            proc.wait()
            if os.path.exists(out):
                with open(out, "rb") as fh:
                    part = pickle.load(fh)
                part.setdefault("nontrivial_enumerated", 0)
                ctx.merge(part)
                done += 1
        ctx.notes.append(f"coverage-guided campaign: {done}/{procs} atheris processes x {runs} executions, token-table decoding, oracle inside the target")
    finally:
        shutil.rmtree(work, ignore_errors=True)


def run(ctx):
    quick = ctx.tier == "quick"
    ns = core.NPROC
    jobs = []
    top = 4 if quick else 5
    for n in range(1, top + 1):
        jobs += _exh_jobs(SIGMA, n, ns * 4)
    ctx.exhaustive[f"token sequences of length <= {top} over {len(SIGMA)} symbols"] = {"complete": True}
    if quick:
        jobs += _exh_jobs(SIGMA_SMALL, 5, ns * 4)
        ctx.exhaustive[f"token sequences of length 5 over {len(SIGMA_SMALL)} symbols"] = {"complete": True}
    else:
        jobs += _exh_jobs(SIGMA_SMALL, 6, ns * 8)
        ctx.exhaustive[f"token sequences of length 6 over {len(SIGMA_SMALL)} symbols"] = {"complete": True}
    ctx.parallel(_exh_worker, jobs)
    hyp = []
    per = 400 if quick else 6000
    for k in range(ns):
        which = ["sentence", "nearmiss", "chars", "sentence"][k % 4]
        hyp.append((which, k, per * (3 if which == "chars" else 1), 6 if k < 8 else 16))
    hyp += [("call_value", 100 + k, 60 if quick else 800, 0) for k in range(ns)]
    ctx.parallel(_hyp_worker, hyp)
    if not quick:
        fuzz_campaign(ctx, 8, 150000)
