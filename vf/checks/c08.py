"""C08 — row equivariance and independence from irrelevant frame structure (metamorphic)."""
import numpy as np
from hypothesis import strategies as st

from vf import core, frames, rich
from vf.observe import compare_summaries, design_summary

PROPERTY = "C08"
RULE = (
    "cases = (formula, frame, transformation): formulas from the rich generator (all atom kinds, group items; "
    "responses numeric / categorical / y[level] / call); transformations = row permutation (index kept or reset), "
    "index replaced by non-unique strings / floats / shuffled integers / a MultiIndex, column order permuted, unused "
    "columns (numeric, string, all-NaN, object) added or removed; distinct = distinct (formula, frame, transformation); "
    "non-trivial = the formula has a categorical factor or a stateful transform, the frame has >= 3 rows and the "
    "transformation is not the identity"
)
ASSUMPTIONS = [
    "row permutations may change floating-point summation order: matrices are compared with rtol = atol = 1e-9 and "
    "transform parameters with rtol 1e-9; the non-permuting transformations must give exactly equal results",
]

RESPONSES = ["y", "y", "y", "f", "h", "g['g1']", "np.abs(y)", "u[p]", "prop(s, n)", "p(s, 40)"]


# an indicator computed inside a call next to another column: whatever container the helper returns, rows stay with their rows
NUM_POOL = tuple(rich.NUM + ["I(binary(g, 'g1') * z)", "np.add(binary(f, 'a'), x)"])


@st.composite
def case_strategy(draw):
    spec = draw(rich.frame_strategy(with_index=False, extra_unused=False, num_styles=("general", "general", "offset", "intdtype", "symmetric", "ties", "smallint", "uint")))
    n0 = frames.nrows(spec)
    trials = [5 + (i * 7) % 9 for i in range(n0)]
    spec["cols"].append({"name": "s", "kind": "int", "values": [(i * 5) % (t_ + 1) for i, t_ in enumerate(trials)]})
    spec["cols"].append({"name": "n", "kind": "int", "values": trials})
    resp = draw(st.sampled_from(RESPONSES))
    d = draw(rich.design(num_pool=NUM_POOL, response=resp))
    if rich.bases(resp) & (rich.used_columns(dict(d, response=None)) - set()):
        d = dict(d, response="y")
        d["formula"] = rich.render(d)
    n = frames.nrows(spec)
    kind = draw(st.sampled_from(["permute", "permute", "permute_reset", "index", "columns", "add_unused", "remove_unused"]))
    t = {"kind": kind}
    if kind in ("permute", "permute_reset"):
        t["perm"] = list(draw(st.permutations(range(n))))
    elif kind == "index":
        t["index"] = draw(st.sampled_from(["strings", "floats", "shuffled", "multi", "negative"]))
        t["seed"] = draw(st.integers(0, 5))
    elif kind == "columns":
        t["order"] = list(draw(st.permutations(range(len(spec["cols"])))))
    elif kind == "add_unused":
        t["which"] = draw(st.lists(st.sampled_from(["num", "str", "nan", "obj", "catcol", "named_like_callees", "duplicate_label"]), min_size=1, max_size=4, unique=True))
    holes = {}
    if draw(st.integers(0, 2)) == 0:
        used = sorted(rich.used_columns(d) & {"x", "z", "p", "y", "f", "g", "h", "u"})
        for name in draw(st.lists(st.sampled_from(used), min_size=1, max_size=2, unique=True)) if used else []:
            if frames.column(spec, name)["kind"] in ("int", "uint16"):
                continue
            holes[name] = sorted(draw(st.sets(st.integers(0, n - 1), min_size=1, max_size=max(1, n // 5))))
    # the strict policy for missing values: columns the formula does not mention do not matter under it either
    strict = (not holes) and draw(st.integers(0, 3)) == 0
    return {"design": d, "frame": spec, "transform": t, "holes": holes, "na_action": "error" if strict else None}


def transformed(spec, t, used):
    n = frames.nrows(spec)
    kind = t["kind"]
    perm = None
    if kind in ("permute", "permute_reset"):
        perm = t["perm"]
        s = frames.take(spec, perm)
        if kind == "permute":
            s["index"] = list(perm)
        return s, perm
    s = {"cols": [dict(c) for c in spec["cols"]], "index": spec.get("index")}
    if kind == "index":
        k = t["index"]
        if k == "strings":
            s["index"] = ["r%d" % ((i + t["seed"]) % 3) for i in range(n)]
        elif k == "floats":
            s["index"] = [float(n - i) / 2 for i in range(n)]
        elif k == "shuffled":
            s["index"] = sorted(range(n), key=lambda i: ((i + 1 + t["seed"]) * frames.PHI) % 1.0)
        elif k == "negative":
            s["index"] = [-(i % 4) for i in range(n)]
        else:
            s["index"] = [[i % 2, "a%d" % (i // 2)] for i in range(n)]
        # the index also gets a name: the name of an object of the namespace, or of nothing at all
        s["index_names"] = [["lv", "np"], ["np", "lv"], ["row", "lv"], ["lv", "lv"], None, ["k2", "j"]][t["seed"]]
    elif kind == "columns":
        s["cols"] = [s["cols"][i] for i in t["order"]]
    elif kind == "add_unused":
        for w in t["which"]:
            if w == "num":
                s["cols"].append({"name": "extra_num", "kind": "float", "values": [float(i) for i in range(n)]})
            elif w == "str":
                s["cols"].insert(0, {"name": "extra_str", "kind": "str", "values": ["e%d" % (i % 2) for i in range(n)]})
            elif w == "nan":
                s["cols"].append({"name": "extra_nan", "kind": "float", "values": [None] * n})
            elif w == "duplicate_label":
                s["duplicate_unused_label"] = True
            elif w == "named_like_callees":
                # columns that carry the names of the functions, modules, keywords and levels a formula mentions, with
                # missing values: none of them is a variable of the formula
                for j, name in enumerate(["center", "scale", "standardize", "C", "T", "S", "I", "np", "poly", "bs", "ustat", "prop", "p",
                                          "df", "degree", "raw", "levels", "g1", "a", "lo", ""]):  # ... and the empty name
                    if name not in [c["name"] for c in s["cols"]]:
                        s["cols"].append({"name": name, "kind": "float", "values": [None if (i + j) % 3 == 0 else float(i) for i in range(n)]})
            elif w == "obj":
                s["cols"].append({"name": "extra_obj", "kind": "object", "values": [[i] for i in range(n)]})
            else:
                s["cols"].append({"name": "extra_cat", "kind": "cat", "values": ["A"] * n, "categories": ["A", "B"], "ordered": False})
    elif kind == "remove_unused":
        s["cols"] = [c for c in s["cols"] if c["name"] in used]
    return s, perm


def judge(ctx, case):
    from formulae import design_matrices

    if ctx.skip():
        return
    rich.register_user_transform()
    if case.get("huge"):
        # more rows than fit in one block of any chunked computation; the frame is described by its recipe, not stored
        r = case["huge"]
        spec = frames.factorial_spec({"f": 2, "g": 3}, r["reps"], seed=r["seed"], catkinds={"f": "cat", "g": "str"})
        nrow = frames.nrows(spec)
        perm = sorted(range(nrow), key=lambda i: ((i + 1) * (r["seed"] + 5) * frames.PHI) % 1.0)
        d, t = case["design"], {"kind": "permute", "perm": perm}
        sample_frame = {"factorial": r, "rows": nrow}
    else:
        d, spec, t = case["design"], case["frame"], case["transform"]
        sample_frame = spec
    holes = case.get("holes") or {}
    if holes:
        from vf.checks.c09 import with_holes

        spec = with_holes(spec, holes)  # missing values in used columns: the default policy drops those rows
    formula = d["formula"]
    nakw = {"na_action": case["na_action"]} if case.get("na_action") else {}
    used = rich.used_columns(d) if not case.get("big") else rich.bases(d["formula"])
    frame = frames.build(spec)
    ns = rich.namespace_for(frame)
    spec2, perm = transformed(spec, t, used)
    frame2 = frames.build(spec2)
    identity = (perm is not None and perm == list(range(len(perm)))) or (t["kind"] == "remove_unused" and len(spec2["cols"]) == len(spec["cols"]))
    interesting = bool(case.get("big")) or any("(" in a or a in ("f", "g", "h", "u") for tt in d["terms"] + [e for g in d["groups"] for e in g["effects"]] for a in tt) or bool(d["groups"])
    ctx.count(core.canon(case), interesting and not identity and frames.nrows(spec) >= 3, ["transform:" + t["kind"] + (":" + t["index"] if "index" in t else ""),
              "response:" + d["response"].split("[")[0].split("(")[0]] + (["missing_values"] if holes else []), sample={"formula": formula, "transform": t if not case.get("huge") else "permute", "frame": sample_frame}, stratum="transform:" + t["kind"])
    # an orthogonal polynomial of degree d on fewer than d + 2 distinct values (tied data, rows lost to missing values) is
    # degenerate: its last columns are round-off divided by round-off, in any row order
    import re as _re

    complete = frame.dropna(subset=[c for c in frame.columns if c in used]) if holes else frame
    for var, deg, rest in _re.findall(r"poly\((\w+), (\d+)([^)]*)\)", formula):
        if var not in complete.columns:
            continue
        if complete[var].nunique() < int(deg) + 2:
            ctx.classes["unjudged:polynomial_degree_close_to_distinct_values"] += 1
            return
        v_ = complete[var].to_numpy(dtype=float)
        if "raw" not in rest and int(deg) >= 2 and v_.std() > 0 and abs(v_.mean()) / v_.std() > 1e3:
            # the three-term recurrence on data far from zero loses (|mean| / sd) ** degree of its digits: what a permuted
            # sum changes in the last bit becomes visible.  That is conditioning, not a dependence on row order.
            ctx.classes["unjudged:ill_conditioned_orthogonal_polynomial"] += 1
            return
    try:
        with core.Guard():
            a = design_summary(design_matrices(formula, frame, extra_namespace=ns, **nakw))
    except Exception as e:  # pylint: disable=broad-except
        ctx.reject(e)  # whether this formula is accepted at all is not C08's business ...
        try:
            with core.Guard():
                design_matrices(formula, frame2, extra_namespace=ns, **nakw)
        except Exception:  # pylint: disable=broad-except
            return
        ctx.fail("status", case, f"{formula!r} raises {type(e).__name__} on the frame but is accepted on the transformed frame ({t['kind']})", t["kind"])
        return
    try:
        with core.Guard():
            b = design_summary(design_matrices(formula, frame2, extra_namespace=ns, **nakw))
    except Exception as e:  # pylint: disable=broad-except
        ctx.fail("status", case, f"{formula!r} is accepted on the frame but raises {type(e).__name__}: {e} after {t['kind']}", t["kind"] + ":" + core.exc_key(e))
        return
    if perm is not None and holes:
        bad = set().union(*[set(r) for r in holes.values()])
        kept = [i for i in range(frames.nrows(spec)) if i not in bad]
        pos = {r: k for k, r in enumerate(kept)}
        perm = [pos[p_] for p_ in perm if p_ in pos]  # the kept rows, in the order of the permuted frame
    diffs = compare_summaries(a, b, perm=perm, exact=perm is None)
    for key, msg in diffs[:3]:
        ctx.fail("equivariance", case, f"{formula!r} after {t['kind']}{(':' + t['index']) if 'index' in t else ''}: {key}: {msg}"[:600], t["kind"] + ":" + key)


BIG_FORMULAS = ["y ~ bs(x, df=6) + f", "y ~ poly(z, 3) + scale(x):g", "y ~ center(x) + (bs(z, df=5) | g)", "f ~ standardize(z) + bs(x, df=8, degree=2)"]


def big_case(k, seed):
    """A frame of a few thousand rows (estimates that are computed from a subsample or in chunks depend on row order only
    on large frames), permuted."""
    n = 2400 + 100 * (k % 3)
    spec = frames.factorial_spec({"f": 2, "g": 3}, n // 6, seed=seed + k, catkinds={"f": "cat", "g": "str"})
    perm = sorted(range(frames.nrows(spec)), key=lambda i: ((i + 1) * (seed + k + 5) * frames.PHI) % 1.0)
    d = {"response": BIG_FORMULAS[k % len(BIG_FORMULAS)].split(" ~ ")[0], "intercept": "implicit", "terms": [], "groups": [],
         "formula": BIG_FORMULAS[k % len(BIG_FORMULAS)]}
    return {"design": d, "frame": spec, "transform": {"kind": "permute" if k % 2 else "permute_reset", "perm": perm}, "holes": {}, "big": True}


def replay(ctx, case):
    judge(ctx, case)


def _worker(ctx, arg):
    shard, n = arg
    core.run_hypothesis(ctx, case_strategy(), judge, n, shard=shard)


HUGE_FORMULAS = ["y ~ x + (x | g)", "y ~ (1 | g) + (0 + z | f)"]


def _big_worker(ctx, arg):
    if arg < 0:
        f = HUGE_FORMULAS[-arg - 1]
        judge(ctx, {"design": {"response": "y", "intercept": "implicit", "terms": [], "groups": [{"factor": "g"}], "formula": f},
                    "huge": {"reps": 11000 + 7 * (ctx.seed % 5), "seed": ctx.seed % 7}, "holes": {}, "big": True})
        return
    judge(ctx, big_case(arg, ctx.seed))


def run(ctx):
    ctx.parallel(_big_worker, list(range(4 if ctx.tier == "quick" else 16)) + [-1, -2])
    per = 250 if ctx.tier == "quick" else 2500
    ctx.parallel(_worker, [(k, per) for k in range(core.NPROC)])
