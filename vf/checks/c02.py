"""C02 — term algebra expands operators by Wilkinson-Rogers / lme4 set semantics.

Generated: operator trees (exhaustive up to a size bound, random beyond), placed as the
right-hand side, with intercept literals and `( e | g )` items in the documented positions.
Oracle: vf.refalgebra on the same tree; response name, set of common terms, set of group terms
(a term = frozenset of factor names).
"""
import itertools

from hypothesis import strategies as st

from vf import core
from vf import refalgebra as ra

PROPERTY = "C02"
RULE = (
    "cases = formulas rendered from operator trees over atoms (variables and call atoms) with + - : * / and "
    "(..)**n, exhaustively enumerated up to a node bound and drawn at random beyond it, placed as right-hand "
    "side, with 0/1/-1 as additive items and ( lead + e | g ) items; distinct = distinct formula string; "
    "non-trivial = the tree uses >= 2 different operators, or its expansion collapses a repeated factor, or a "
    "subtraction removes a term, or it has a call atom with a literal argument, or it has a group item"
)
ASSUMPTIONS = [
    "terms are compared as sets of factor names: neither term order nor the spelling a:b / b:a is judged",
    "a subtraction whose operand names an existing term with its factors in another order may follow either "
    "set identity or ordered identity (both readings accepted)",
    "intercept literals only in documented positions (additive items of the right-hand side, leading item of an effect)",
]

ATOMS_A = ["a", "b", "f(x, 2)"]
ATOMS_B = ["a", "b", "c", "f(x)", "f(x, 2)"]
ATOMS_Q = ["a", "b", "`a:b`", "f(x)", "`f(x)`"]  # variables whose names spell another term of the same formula
ATOMS_C = ["f(x)", "f(z)", "f(h(x))", "f(x, 2)", "f(x, k=2)", "f(x, k=3)", "f(x + 1)", "f(-x)", "f(x, k=2, j=1)", "f(x, j=1, k=2)"]
OPS = ["+", "-", ":", "*", "/"]


def trees(n, atoms, pows=(2, 3)):
    if n == 0:
        for a in atoms:
            yield ("var", a)
        return
    for k in range(n):
        lefts = list(trees(k, atoms, pows))
        rights = list(trees(n - 1 - k, atoms, pows))
        for l in lefts:
            for r in rights:
                for op in OPS:
                    yield (op, l, r)
    for l in trees(n - 1, atoms, pows):
        for p in pows:
            yield ("**", l, p)


GTREES = [
    ("var", "g"),
    (":", ("var", "g"), ("var", "h")),
    ("+", ("var", "g"), ("var", "h")),
    ("/", ("var", "g"), ("var", "h")),
    ("*", ("var", "g"), ("var", "h")),
    ("var", "C(k)"),
]


from vf.observe import impl_model  # noqa: E402  pylint: disable=wrong-import-position


# ---- structure predicates ----------------------------------------------------------------------
def ops_of(t, acc=None):
    acc = set() if acc is None else acc
    if t[0] == "var":
        return acc
    acc.add(t[0])
    ops_of(t[1], acc)
    if t[0] != "**":
        ops_of(t[2], acc)
    return acc


def has_selfproduct(t):
    """Class of KF-C02-1: a `*` whose operands expand to the same set of >= 2 terms."""
    if t[0] == "var":
        return False
    if t[0] == "*":
        a, b = ra.ev(t[1]), ra.ev(t[2])
        if len(a) >= 2 and set(a) == set(b):
            return True
    if has_selfproduct(t[1]):
        return True
    return t[0] != "**" and has_selfproduct(t[2])


def empty_slash_left(t):
    """`e / b` with e expanding to no term at all: "(all factors of e):b" is not defined by the statement."""
    if t[0] == "var":
        return False
    if t[0] == "/" and not ra.ev(t[1]):
        return True
    if empty_slash_left(t[1]):
        return True
    return t[0] != "**" and empty_slash_left(t[2])


def item_trees(items):
    for _, it in items:
        if it[0] in ("par1", "par0"):
            yield it[1]
            continue
        if it[0] == "grp":
            if it[2] is not None:
                yield it[2]
            yield it[3]
        elif it[0] != "lit":
            yield it


def nontrivial(items):
    for _, it in items:
        if it[0] == "grp":
            return True
    for t in item_trees(items):
        if len(ops_of(t)) >= 2:
            return True
        if "-" in ops_of(t) and len(ra.ev(t)) < len(ra.ev(("+", t[1], t[2])) if t[0] == "-" else ra.ev(t)):
            return True
        if any("," in f or "=" in f for x in ra.ev(t) for f in x):
            return True
        if t[0] in (":", "*", "/") and collapses(t):
            return True
    return False


def collapses(t):
    a, b = ra.ev(t[1]), ra.ev(t[2])
    return any(set(x) & set(y) for x in a for y in b)


# ---- the oracle ------------------------------------------------------------------------------------
def judge(ctx, case):
    """case = {"items": [[sign, item], ...], "style": "full"|"min", "response": "y"|None}"""
    if ctx.skip():
        return None
    items = [(s, _tup(it)) for s, it in case["items"]]
    renderer = ra.render_full if case.get("style", "full") == "full" else ra.render_min
    body = ra.render_rhs(items, renderer)
    resp = case.get("response", "y")
    formula = f"{resp} ~ {body}" if resp else body
    if any(empty_slash_left(t) for t in item_trees(items)):
        ctx.count(formula, False, ["unjudged:empty_left_operand_of_slash"])
        return
    want_c, want_g, empty_effect = ra.rhs(items)
    want = ra.canon_model(want_c, want_g)
    classes = ["style:" + case.get("style", "full"), "items:%d" % len(items)]
    if any(it[0] == "grp" for _, it in items):
        classes.append("has_group_item")
    if any(it[0] == "lit" for _, it in items):
        classes.append("has_intercept_literal")
    for t in item_trees(items):
        for o in ops_of(t):
            classes.append("op:" + o)
    ctx.count(formula, nontrivial(items), classes, distinct=bool(case.get("enumerated")))
    full = dict(case, formula=formula)
    try:
        with core.Guard():
            got_resp, got_c, got_g = impl_model(formula)
    except Exception as e:  # pylint: disable=broad-except
        if empty_effect:
            ctx.classes["either_or:empty_effect_raised"] += 1
            return
        if any(it[0] == "par0" for _, it in items):
            ctx.classes["either_or:parenthesised_zero_refused"] += 1
            return
        ctx.fail("raises", full, f"{formula!r} raised {type(e).__name__}: {e}", core.exc_key(e))
        return
    if got_resp != resp:
        ctx.fail("response", full, f"{formula!r}: response {got_resp!r}, expected {resp!r}")
    got = ra.canon_model(got_c, got_g)
    if got == want:
        return
    # second admissible reading: a subtraction that names an existing term with its factors in
    # another order may follow ordered identity (a:b - b:a keeps a:b)
    alt_c, alt_g = ra.rhs_ordered(items)
    if ra.canon_model(alt_c, alt_g) == got:
        ctx.classes["either_or:ordered_identity_subtraction"] += 1
        return
    detail = (
        f"{formula!r}: common {sorted(sorted(x) for x in got[0])} group {sorted((sorted(a), sorted(b)) for a, b in got[1])}"
        f" expected common {sorted(sorted(x) for x in want[0])} group {sorted((sorted(a), sorted(b)) for a, b in want[1])}"
    )
    which = "common" if got[0] != want[0] else "group"
    ctx.fail("expansion", full, detail, which + ":" + localise(items))


def _subtrees(t):
    if t[0] != "var":
        yield from _subtrees(t[1])
        if t[0] != "**":
            yield from _subtrees(t[2])
    yield t


def _kind(t):
    n = len(ra.ev(t))
    return "E" if n == 0 else ("T" if n == 1 else "M")


def localise(items):
    """Root-cause key of a mismatch: the smallest subtree that already disagrees on its own."""
    for t in item_trees(items):
        for sub in _subtrees(t):
            if sub[0] == "var" or empty_slash_left(sub):
                continue
            try:
                with core.Guard():
                    _, c, g = impl_model("y ~ " + ra.render_full(sub))
            except Exception:  # pylint: disable=broad-except
                continue
            want = ra.canon_model([()] + ra.ev(sub), [])
            if ra.canon_model(c, g) != want and ra.canon_model([()] + ra.ev_ordered(sub), []) != ra.canon_model(c, g):
                r = "n" if sub[0] == "**" else _kind(sub[2])
                return f"{sub[0]}({_kind(sub[1])},{r})"
    return "composition"


def _tup(x):
    if isinstance(x, list):
        return tuple(_tup(i) for i in x)
    return x


def replay(ctx, case):
    judge(ctx, case)


# ---- known-finding classes ---------------------------------------------------------------------------
def _kf_selfproduct(case, clause, detail):  # pylint: disable=unused-argument
    """A formula of the class (a `*` whose operands expand to the same >= 2 terms) whose model is exactly what the
    recorded deviation — `M * M` returns M — gives; any other wrong expansion of such a formula is reported."""
    items = [(s, _tup(it)) for s, it in case["items"]]
    if clause != "expansion" or not any(has_selfproduct(t) for t in item_trees(items)):
        return False
    try:
        with core.Guard():
            _, got_c, got_g = impl_model(case["formula"])
    except Exception:  # pylint: disable=broad-except
        return False
    got = ra.canon_model(got_c, got_g)
    with ra.self_product_shortcut():
        dev_c, dev_g, _ = ra.rhs(items)
        alt_c, alt_g = ra.rhs_ordered(items)
    return got in (ra.canon_model(dev_c, dev_g), ra.canon_model(alt_c, alt_g))


KNOWN_CLASSES = {"selfproduct": _kf_selfproduct}


# ---- domains -----------------------------------------------------------------------------------------
def _atoms(t):
    if t[0] == "var":
        return {t[1]}
    return _atoms(t[1]) | (_atoms(t[2]) if t[0] != "**" else set())


def _exh_worker(ctx, arg):
    name, atoms, n, shard, nshards = arg
    for i, t in enumerate(trees(n, atoms)):
        if i % nshards != shard:
            continue
        if name.startswith("C") and _atoms(t) <= set(ATOMS_B):
            continue  # already enumerated with the other atom pool
        judge(ctx, {"items": [["+", t]], "style": "full", "enumerated": True})
        if i % 7 == 0 and n > 0:
            judge(ctx, {"items": [["+", t]], "style": "min", "enumerated": True})


LITS = [("lit", "0"), ("lit", "1"), ("lit", "-1")]


def _placement_cases(quick):
    small = list(trees(0, ATOMS_A)) + list(trees(1, ATOMS_A))
    pool = small[:8] + LITS
    # 1) intercept literals among up to 3 additive items
    for n in (1, 2, 3):
        for its in itertools.product(pool, repeat=n):
            for signs in itertools.product("+-", repeat=n - 1):
                items = [("+", its[0])] + list(zip(signs, its[1:]))
                if any(sg == "-" and it[0] == "lit" and it[1] != "1" for sg, it in items):
                    continue  # '- 0' and '- -1' are not documented
                yield [[s, it] for s, it in items]
    # 1b) an explicit `1` inside a parenthesised sum, after the intercept was removed or not
    for t in small[:12]:
        for pre in ([], [["+", ("lit", "0")]], [["+", ("var", "b")], ["-", ("lit", "1")]], [["+", ("lit", "-1")], ["+", ("var", "a")]]):
            yield pre + [["+", ("par1", t)]]
            yield pre + [["+", ("var", "b")], ["+", ("par1", t)]]
            yield pre + [["+", ("par1", t)], ["-", ("par1", t)]]
            if not pre or pre[0][1] == ("var", "b"):
                # `(0 + e)` as an item: refused today; if accepted one day, the 0 still removes the intercept
                yield pre + [["+", ("par0", t)]]
                yield [["+", ("par0", t)]] + pre
    # 2) group items
    effects = [None] + (small if not quick else small[:20])
    for lead in (None, "0", "1", "-1"):
        for e in effects:
            if e is None and lead in ("0", "-1"):
                continue  # `(0 | g)` has no effect at all: not documented
            if e is None and lead is None:
                continue
            for g in GTREES:
                grp = ("grp", lead, e, g)
                yield [["+", grp]]
                yield [["+", ("var", "a")], ["+", grp]]
                yield [["+", grp], ["-", ("grp", None, ("var", "a"), ("var", "g"))]]
                yield [["+", grp], ["+", ("grp", "1", None, ("var", "g"))], ["+", ("lit", "0")]]


def _power_cases():
    """(sum of k terms) ** n for every k <= 6 and n <= k + 1: all interactions up to order n, none missing, none invented"""
    names = ["a", "b", "c", "d", "e", "f(x)"]
    for k in range(2, 7):
        for variant in range(3):
            leaves = [("var", v) for v in names[:k]]
            if variant == 1:
                leaves[-1] = (":", ("var", names[k - 1]), ("var", "h"))  # one summand is an interaction already
            elif variant == 2:
                leaves = leaves[::-1]
            t = leaves[0]
            for leaf in leaves[1:]:
                t = ("+", t, leaf)
            for n in range(2, k + 2):
                yield [["+", ("**", t, n)]]
                if n == 3:
                    yield [["+", ("var", "h")], ["+", ("**", t, n)]]


def _placement_worker(ctx, arg):
    shard, nshards = arg
    for i, items in enumerate(itertools.chain(_placement_cases(ctx.tier == "quick"), _power_cases())):
        if i % nshards == shard:
            judge(ctx, {"items": items, "style": "full"})


def tree_strategy(atoms, max_leaves):
    leaf = st.sampled_from(atoms).map(lambda a: ("var", a))

    def extend(children):
        return st.one_of(
            st.tuples(st.sampled_from(OPS), children, children),
            st.tuples(st.just("**"), children, st.integers(2, 4)),
        )

    return st.recursive(leaf, extend, max_leaves=max_leaves)


def _random_case(max_leaves):
    atoms = st.sampled_from([ATOMS_A, ATOMS_B, ATOMS_C, ATOMS_Q, ["a", "b", "c", "d", "e"]])

    @st.composite
    def build(draw):
        pool = draw(atoms)
        n = draw(st.integers(1, 4))
        items = []
        for i in range(n):
            kind = draw(st.sampled_from(["tree", "tree", "tree", "lit", "grp", "par1"]))
            sign = "+" if i == 0 else draw(st.sampled_from(["+", "+", "-"]))
            if kind == "lit":
                lit = draw(st.sampled_from(["0", "1", "-1"]))
                if sign == "-":
                    lit = "1"
                items.append([sign, ("lit", lit)])
            elif kind == "par1":
                items.append([sign, ("par1", draw(tree_strategy(pool, 4)))])
            elif kind == "grp":
                lead = draw(st.sampled_from([None, None, "0", "1", "-1"]))
                e = draw(st.one_of(st.none(), tree_strategy(pool, 4))) if lead == "1" else draw(tree_strategy(pool, 4))
                g = draw(st.one_of(st.sampled_from(GTREES), tree_strategy(["g", "h", "k"], 3)))
                items.append([sign, ("grp", lead, e, g)])
            else:
                items.append([sign, draw(tree_strategy(pool, max_leaves))])
        style = draw(st.sampled_from(["full", "min"]))
        resp = draw(st.sampled_from(["y", "y", "y", None]))
        return {"items": items, "style": style, "response": resp}

    return build()


def _random_worker(ctx, arg):
    shard, n, leaves = arg
    core.run_hypothesis(ctx, _random_case(leaves), judge, n, shard=shard)


def run(ctx):
    quick = ctx.tier == "quick"
    ns = core.NPROC
    jobs = []
    if quick:
        for n in (0, 1, 2):
            jobs += [("B", ATOMS_B, n, k, ns if n == 2 else 1) for k in range(ns if n == 2 else 1)]
        jobs += [("A", ATOMS_A, 3, k, ns) for k in range(ns)]
        jobs += [("C", ATOMS_C, n, 0, 1) for n in (0, 1)]
        jobs += [("C", ATOMS_C, 2, k, ns) for k in range(ns)]
        jobs += [("Q", ATOMS_Q, n, 0, 1) for n in (0, 1)] + [("Q", ATOMS_Q, 2, k, ns) for k in range(ns)]
        ctx.exhaustive["trees<=2 over 5 atoms, trees<=3 over 3 atoms, trees<=2 over 10 call atoms, trees<=2 over back-quoted look-alikes"] = {"complete": True}
    else:
        for n in (0, 1, 2):
            jobs += [("B", ATOMS_B, n, 0, 1)]
        jobs += [("B", ATOMS_B, 3, k, ns * 4) for k in range(ns * 4)]
        jobs += [("C", ATOMS_C, n, 0, 1) for n in (0, 1)]
        jobs += [("C", ATOMS_C, 2, k, ns) for k in range(ns)]
        jobs += [("C3", ATOMS_C[2:6], 3, k, ns * 2) for k in range(ns * 2)]
        jobs += [("Q", ATOMS_Q, n, 0, 1) for n in (0, 1)] + [("Q", ATOMS_Q, 2, k, ns) for k in range(ns)]
        ctx.exhaustive["trees<=3 over 5 atoms, trees<=2 over 10 call atoms, trees<=3 over 4 call atoms"] = {"complete": True}
    ctx.parallel(_exh_worker, jobs)
    ctx.parallel(_placement_worker, [(k, ns) for k in range(ns)])
    ctx.exhaustive["intercept-literal and group-item placements; (sum of k <= 6 terms) ** n for n <= k + 1"] = {"complete": True}
    per = 400 if quick else 4000
    ctx.parallel(_random_worker, [(k, per, 6 if k % 2 else 10) for k in range(ns)])
