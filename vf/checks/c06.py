"""C06 — evaluating new data made of training rows reproduces the training encoding."""
import numpy as np
from hypothesis import strategies as st

from vf import core, frames, rich

PROPERTY = "C06"
RULE = (
    "cases = (formula, training frame, list of row multisets): formulas over plain / C / T / S coded factors "
    "(reference, omit and levels= options, ordered categoricals), numeric variables, center / scale / standardize / "
    "bs / poly / nested and interacting stateful transforms, a user-registered stateful transform, pointwise calls "
    "and group items; row multisets = single rows, reversed frame, repeated rows, drawn subsets, and subsets built so "
    "that a level (incl. the reference level), a whole group or the extreme values of a numeric column are missing; "
    "distinct = distinct (formula, frame, multiset); non-trivial = the sub-frame's level set, minimum, maximum or "
    "mean of some used column differs from the training frame's"
)
ASSUMPTIONS = [
    "non-stateful functions that aggregate over the column (I(x - np.mean(x)), a plain user demean) are not generated: "
    "the statement freezes remembered state only",
    "sub-frames never contain unseen values, so with the default configuration any exception is a violation",
    "values are compared with rtol = atol = 1e-9; remembered parameters must be bit-identical before and after",
]


@st.composite
def case_strategy(draw):
    spec = draw(rich.frame_strategy())
    d = draw(rich.design())
    n = frames.nrows(spec)
    # a column no formula uses, with missing values: it has nothing to say about which rows are predicted
    spec["cols"].append({"name": "remark", "kind": "float", "values": [None if i % 3 == 0 else float(i) for i in range(n)]})
    used = sorted(rich.used_columns(d))
    subsets = []
    for _ in range(draw(st.integers(2, 4))):
        kind = draw(st.sampled_from(["single", "reversed", "repeat", "subset", "drop_level", "drop_level", "drop_extremes"]))
        if kind == "single":
            idx = [draw(st.integers(0, n - 1))]
        elif kind == "reversed":
            idx = list(range(n))[::-1]
        elif kind == "repeat":
            idx = draw(st.lists(st.integers(0, n - 1), min_size=2, max_size=8))
        elif kind == "subset":
            idx = sorted(draw(st.sets(st.integers(0, n - 1), min_size=1, max_size=n)))
        elif kind == "drop_level":
            cats = [c for c in used if c in ("f", "g", "h", "u", "k")]
            if not cats:
                idx = [0]
            else:
                col = frames.column(spec, draw(st.sampled_from(cats)))
                levels = sorted(set(col["values"]), key=str)
                which = draw(st.integers(0, len(levels) - 1))
                if draw(st.booleans()):
                    which = 0  # the default reference level
                idx = [i for i, v in enumerate(col["values"]) if v != levels[which]] or [0]
        else:
            nums = [c for c in used if c in ("x", "z", "p")]
            if not nums:
                idx = [n - 1]
            else:
                vals = frames.column(spec, draw(st.sampled_from(nums)))["values"]
                lo, hi = vals.index(min(vals)), vals.index(max(vals))
                idx = [i for i in range(n) if i not in (lo, hi)] or [0]
        subsets.append({"rows": idx, "drop_unused_categories": draw(st.booleans()), "reset_index": draw(st.booleans()),
                        "recast": draw(st.sampled_from([None, None, "str_to_category", "category_to_str"]))})
    return {"design": d, "frame": spec, "subsets": subsets}


def subframe(spec, sub):
    s = frames.take(spec, sub["rows"])
    if sub.get("drop_unused_categories"):
        for c in s["cols"]:
            if c["kind"] == "cat":
                present = set(c["values"])
                c["categories"] = [x for x in c["categories"] if x in present]
    if sub.get("reset_index"):
        s["index"] = None
    if sub.get("recast") == "str_to_category":  # the same values, held in another (equivalent) column type
        for c in s["cols"]:
            if c["kind"] == "str":
                c["kind"], c["categories"], c["ordered"] = "cat", sorted(set(c["values"])), False
    elif sub.get("recast") == "category_to_str":
        for c in s["cols"]:
            if c["kind"] == "cat" and all(isinstance(v, str) for v in c["values"]):
                c["kind"] = "str"
    return frames.build(s)


def differs(spec, sub, used):
    rows = sub["rows"]
    for name in used:
        c = frames.column(spec, name)
        full, part = c["values"], [c["values"][i] for i in rows]
        if c["kind"] in ("str", "cat", "int"):
            if set(full) != set(part):
                return True
        if c["kind"] in ("float", "int"):
            if min(full) != min(part) or max(full) != max(part) or abs(sum(full) / len(full) - sum(part) / len(part)) > 1e-12:
                return True
    return False


def labels_of(m):
    out = []
    for t in m.terms.values():
        out.extend(t.labels)
    return out


def judge(ctx, case):
    from formulae import design_matrices

    if ctx.skip():
        return
    rich.register_user_transform()
    d, spec = case["design"], case["frame"]
    formula = d["formula"]
    frame = frames.build(spec)
    used = sorted(rich.used_columns(d))
    ns = rich.namespace_for(frame)
    full = dict(case)
    try:
        with core.Guard():
            dm = design_matrices(formula, frame, extra_namespace=ns)
    except Exception as e:  # pylint: disable=broad-except
        ctx.count(core.canon([formula, spec]), False, ["build_failed"])
        ctx.fail("build", {"design": d, "frame": spec, "subsets": []}, f"{formula!r} raised {type(e).__name__}: {e}", core.exc_key(e))
        return
    before = rich.snapshot_state(dm)
    classes = set()
    for t in d["terms"] + [t for g in d["groups"] for t in g["effects"]]:
        for a in t:
            if "(" in a or "{" in a:
                classes.add("atom:" + a.split("(")[0].replace("{x * 2}", "brace"))
    if d["groups"]:
        classes.add("has_group")
    for sub in case["subsets"]:
        nt = differs(spec, sub, used)
        ctx.count(core.canon([formula, spec, sub]), nt, sorted(classes) + ["rows:%s" % ("1" if len(sub["rows"]) == 1 else "many")],
                  sample={"formula": formula, "rows": sub["rows"], "frame": spec}, stratum="group" if d["groups"] else "common")
        one = {"design": d, "frame": spec, "subsets": [sub]}
        try:
            new = subframe(spec, sub)
        except Exception as e:  # pylint: disable=broad-except
            raise core.HarnessError(f"cannot build sub-frame: {e}") from e
        for part in ("common", "group"):
            m = getattr(dm, part)
            if m is None:
                continue
            try:
                with core.Guard():
                    got = m.evaluate_new_data(new)
                    gm = np.asarray(got.design_matrix, dtype=float)
                    glabels = labels_of(got)
            except Exception as e:  # pylint: disable=broad-except
                ctx.fail("raises", one, f"{formula!r}: {part}.evaluate_new_data on rows {sub['rows'][:8]} raised {type(e).__name__}: {e}", core.exc_key(e))
                continue
            want = np.asarray(m.design_matrix, dtype=float)[sub["rows"]]
            if gm.ndim == 1:
                gm = gm[:, None]
            if gm.shape != want.shape:
                ctx.fail("rows", one, f"{formula!r}: {part} matrix on rows {sub['rows'][:8]} has shape {gm.shape}, training rows have {want.shape}", part + ":shape")
            elif not np.allclose(gm, want, rtol=1e-9, atol=1e-9):
                j = int(np.flatnonzero(~np.isclose(gm, want, rtol=1e-9, atol=1e-9).all(axis=0))[0])
                lab = labels_of(m)[j] if j < len(labels_of(m)) else "?"
                ctx.fail("rows", one, f"{formula!r}: {part} matrix on rows {sub['rows'][:8]} differs from the training rows in column {j} ({lab})",
                         part + ":" + lab.split("[")[0].split("(")[0])
            if glabels != labels_of(m):
                ctx.fail("labels", one, f"{formula!r}: {part} labels changed on new data: {glabels} vs {labels_of(m)}", part)
        after = rich.snapshot_state(dm)
        if after != before:
            changed = [a[0] for a, b in zip(after, before) if a != b]
            ctx.fail("state", one, f"{formula!r}: remembered state changed after evaluating rows {sub['rows'][:8]}: {changed}", str(changed[:1]))
            before = after


def replay(ctx, case):
    judge(ctx, case)


def _worker(ctx, arg):
    shard, n = arg
    core.run_hypothesis(ctx, case_strategy(), judge, n, shard=shard)


def run(ctx):
    per = 250 if ctx.tier == "quick" else 2500
    ctx.parallel(_worker, [(k, per) for k in range(core.NPROC)])
