"""C16 — built-in helper functions and aliases keep their documented pointwise meaning."""
import numpy as np
from hypothesis import strategies as st

from vf import core, frames, rich

PROPERTY = "C16"
RULE = (
    "cases = (helper call, training frame, new frame): binary(x, s) for integer, string and boolean-expression x "
    "with s present, absent or omitted; offset of a column, a constant (int, float, negative, arithmetic) and a call; "
    "prop / p / proportion with column, constant, keyword and expression trials and invalid counts; I(e) and {e}; each "
    "alias pair written both ways (B/binary, p/prop/proportion, standardize/scale, T(x, r)/C(x, Treatment(r)), "
    "S(x, o)/C(x, Sum(o))); evaluated at training time and on new frames made of training rows and of fresh values; "
    "distinct = distinct (formula, frames); non-trivial = the case is evaluated on a new frame whose values differ "
    "from training, or an alias pair with a non-default argument"
)
ASSUMPTIONS = [
    "binary at prediction uses the success level fixed at training (the smallest training value when omitted)",
    "prop's prediction frames do not contain the successes column (as in the repository's own tests)",
]


@st.composite
def case_strategy(draw):
    spec = draw(rich.frame_strategy(min_rows=8, max_rows=24, with_index=True, extra_unused=False))
    n = frames.nrows(spec)
    seed = draw(st.integers(0, 20))
    trials = [5 + (i * 7 + seed) % 9 for i in range(n)]
    spec["cols"].append({"name": "s", "kind": "int", "values": [(i * 5 + seed) % (t + 1) for i, t in enumerate(trials)]})
    spec["cols"].append({"name": "n", "kind": "int", "values": trials})
    spec["cols"].append({"name": "t", "kind": "float", "values": [3.0] * n})  # an exposure that happens to be constant in training
    spec["cols"].append({"name": "t0", "kind": "float", "values": [0.0 if i == seed % n else float(1 + i % 4) for i in range(n)]})  # an exposure of zero: its logarithm is -inf
    spec["cols"].append({"name": "nc", "kind": "int", "values": [30] * n})  # ... and a number of trials that is the same in every training row
    # a Categorical that declares a category no row has (what is left after filtering rows): 'zz' never occurs
    spec["cols"].append({"name": "cg", "kind": "cat", "values": ["m" if (i + seed) % 3 else "n" for i in range(n)], "categories": ["n", "zz", "m"], "ordered": False})
    kind = draw(st.sampled_from(["binary", "binary", "offset", "offset", "prop", "prop", "identity", "alias", "alias", "prop_invalid"]))
    c = {"kind": kind, "frame": spec}
    rows = draw(st.lists(st.integers(0, n - 1), min_size=1, max_size=6))
    c["new_rows"] = rows
    c["fresh"] = draw(st.booleans())
    c["fresh_seed"] = draw(st.integers(1, 9))
    if kind == "binary":
        c["x"] = draw(st.sampled_from(["k", "g", "f", "x > 0", "k == 2", "h", "k - 10", "k - 10", "cg"]))
        c["success"] = draw(st.sampled_from(["omitted", "present", "present", "absent"]))
        c["pick"] = draw(st.integers(0, 5))
        c["fn"] = draw(st.sampled_from(["binary", "B"]))
        c["keyword"] = draw(st.booleans())
    elif kind == "offset":
        c["arg"] = draw(st.sampled_from(["x", "z", "k", "2", "2.5", "-2", "1 + 1", "-1.5", "3 * 2", "np.log(p)", "x * 2", "-x", "0", "k + 1", "t", "np.log(t)", "t * 2", "np.mean(x)", "np.log(np.max(p))", "np.mean(z) * 2", "np.log(t0)", "-np.log(t0)"]))
        c["by_keyword"] = draw(st.integers(0, 4)) == 0  # offset(x=...): the argument passed by its name
    elif kind == "prop":
        c["fn"] = draw(st.sampled_from(["prop", "p", "proportion"]))
        c["trials"] = draw(st.sampled_from(["n", "n", "40", "trials=n", "trials=40", "n + 1", "nc", "trials=nc", "N40", "trials=N40", "N40 + 1"]))  # N40: a number the caller holds in a variable
        c["spelling"] = draw(st.sampled_from(["positional", "positional", "successes=", "trials_first"]))  # both arguments by keyword, in either order
        c["float_counts"] = draw(st.integers(0, 3)) == 0  # integer-valued float columns are valid counts
    elif kind == "prop_invalid":
        c["what"] = draw(st.sampled_from(["float_successes", "successes_gt_trials", "successes_gt_trials_one_row", "float_successes_one_row", "float_trials", "float_constant", "successes_not_a_name", "missing_success_kept", "large_fraction", "float32_successes"]))
    elif kind == "identity":
        c["expr"] = draw(st.sampled_from(["x + z", "x * 2", "x ** 2", "(x + z) / 2", "-x", "x - z * 3", "np.abs(x)", "x > 0"]))
        c["brace"] = draw(st.booleans())
    else:
        c["pair"] = draw(st.sampled_from(["B", "p", "proportion", "standardize", "T", "Tref", "S", "Somit"]))
        c["var"] = draw(st.sampled_from(["f", "g", "h"]))
        c["pick"] = draw(st.integers(0, 5))
        c["intercept"] = draw(st.booleans())
    return c


def new_frame(case, drop=()):
    spec = case["frame"]
    s = frames.take(spec, case["new_rows"])
    s["index"] = None
    if case.get("fresh"):
        for c in s["cols"]:
            if c["kind"] == "float":
                c["values"] = [round(v * 1.5 + case["fresh_seed"], 6) for v in c["values"]]
            elif c["name"] in ("n", "nc"):
                c["values"] = [v + 10 * case["fresh_seed"] + (i if c["name"] == "nc" else 0) for i, v in enumerate(c["values"])]
    s["cols"] = [c for c in s["cols"] if c["name"] not in drop]
    return frames.build(s)


def lit(v):
    return repr(v) if isinstance(v, str) else str(v)


def col_of(m):
    a = np.asarray(m, dtype=float)
    return a.reshape(a.shape[0], -1)


def judge(ctx, case):
    from formulae import design_matrices

    if ctx.skip():
        return
    spec, kind = case["frame"], case["kind"]
    frame = frames.build(spec)
    ns = {"np": np, "N40": 40}
    nontrivial = bool(case.get("fresh")) or len(set(case["new_rows"])) < len(frame)
    classes = ["kind:" + kind]

    def build(f, fr=frame, **kw):
        with core.Guard():
            return design_matrices(f, fr, extra_namespace=ns, **kw)

    def done(formula, nt=nontrivial, extra=()):
        ctx.count(core.canon([formula, spec, case["new_rows"], case.get("fresh"), case.get("fresh_seed")]), nt, classes + list(extra),
                  sample={"formula": formula, "new_rows": case["new_rows"], "fresh": case.get("fresh")}, stratum="kind:" + kind)

    if kind == "binary":
        xexpr = case["x"]
        base = "k" if xexpr.startswith("k") else ("x" if xexpr.startswith("x") else xexpr)
        vals = frame[base]
        if xexpr == "x > 0":
            series = vals > 0
        elif xexpr == "k == 2":
            series = vals == 2
        elif xexpr == "k - 10":
            series = vals - 10  # contains 0, and 0 is not the smallest value
        else:
            series = vals
        uniq = sorted(set(series.tolist()))
        mode = case["success"]
        if mode == "omitted":
            s, arg = uniq[0], ""
        elif mode == "present":
            s = uniq[case["pick"] % len(uniq)]
            arg = (", success=" if case.get("keyword") else ", ") + lit(s)
        else:
            s = "zz" if isinstance(uniq[0], str) else (0 if 0 not in uniq and not isinstance(uniq[0], bool) else 77)
            arg = ", " + lit(s)
        formula = f"y ~ 0 + {case['fn']}({xexpr}{arg})"
        done(formula, extra=["success:" + mode, "x:" + xexpr])
        full = dict(case, formula=formula)
        try:
            dm = build(formula)
        except Exception as e:  # pylint: disable=broad-except
            if mode != "absent":
                ctx.fail("binary", full, f"{formula!r} raised {type(e).__name__}: {e}", "training:" + core.exc_key(e))
            return
        if mode == "absent":
            ctx.fail("binary", full, f"{formula!r}: a success value that never occurs in training was accepted", "absent_accepted")
            return
        want = np.array([1.0 if v == s else 0.0 for v in series.tolist()])
        got = col_of(dm.common.design_matrix)
        if got.shape[1] != 1 or not np.array_equal(got[:, 0], want):
            ctx.fail("binary", full, f"{formula!r}: column is not 1 exactly where {xexpr} equals {s!r}", "training_values")
        new = new_frame(case)
        nb = new[base]
        nseries = (nb > 0) if xexpr == "x > 0" else ((nb == 2) if xexpr == "k == 2" else ((nb - 10) if xexpr == "k - 10" else nb))
        try:
            with core.Guard():
                g2 = col_of(dm.common.evaluate_new_data(new).design_matrix)
        except Exception as e:  # pylint: disable=broad-except
            ctx.fail("binary", full, f"{formula!r}: evaluate_new_data raised {type(e).__name__}: {e}", "prediction:" + type(e).__name__)
            return
        want2 = np.array([1.0 if v == s else 0.0 for v in nseries.tolist()])
        if g2.shape != (len(new), 1) or not np.array_equal(g2[:, 0], want2):
            ctx.fail("binary", full, f"{formula!r}: on new data the column is not 1 exactly where {xexpr} equals the training success value {s!r}", "prediction_values")
        return

    if kind == "offset":
        arg = case["arg"]
        formula = f"y ~ 1 + offset({'x=' if case.get('by_keyword') else ''}{arg})"
        done(formula, extra=["offset:" + ("column" if arg in ("x", "z", "t", "k") else ("call" if any(c.isalpha() for c in arg) else "constant"))])
        full = dict(case, formula=formula)
        env = {"x": frame["x"].to_numpy(dtype=float), "z": frame["z"].to_numpy(dtype=float), "p": frame["p"].to_numpy(dtype=float), "np": np,
               "k": frame["k"].to_numpy(dtype=float), "t": frame["t"].to_numpy(dtype=float), "t0": frame["t0"].to_numpy(dtype=float)}
        try:
            dm = build(formula)
            name = [t for t in dm.common.terms if t.startswith("offset")][0]
            got = col_of(dm.common[name])
        except Exception as e:  # pylint: disable=broad-except
            ctx.fail("offset", full, f"{formula!r} raised {type(e).__name__}: {e}", "training:" + core.exc_key(e))
            return
        want = np.broadcast_to(np.asarray(eval(arg, {}, env), dtype=float), (len(frame),))  # pylint: disable=eval-used
        if got.shape != (len(frame), 1) or not np.allclose(got[:, 0], want, rtol=1e-12, atol=0):
            ctx.fail("offset", full, f"{formula!r}: the offset column is not {arg} (broadcast)", "training_values")
        new = new_frame(case)
        env2 = {"x": new["x"].to_numpy(dtype=float), "z": new["z"].to_numpy(dtype=float), "p": new["p"].to_numpy(dtype=float), "np": np,
                "k": new["k"].to_numpy(dtype=float), "t": new["t"].to_numpy(dtype=float), "t0": new["t0"].to_numpy(dtype=float)}
        try:
            with core.Guard():
                g2 = col_of(dm.common.evaluate_new_data(new)[name])
        except Exception as e:  # pylint: disable=broad-except
            ctx.fail("offset", full, f"{formula!r}: evaluate_new_data raised {type(e).__name__}: {e}", "prediction:" + type(e).__name__)
            return
        want2 = np.broadcast_to(np.asarray(eval(arg, {}, env2), dtype=float), (len(new),))  # pylint: disable=eval-used
        if g2.shape != (len(new), 1) or not np.allclose(g2[:, 0], want2, rtol=1e-12, atol=0):
            ctx.fail("offset", full, f"{formula!r}: on new data the offset is not {arg} of the new frame", "prediction_values")
        return

    if kind == "prop":
        formula = f"{case['fn']}(s, {case['trials']}) ~ x"
        if case.get("spelling", "positional") != "positional":
            t_ = case["trials"].replace("trials=", "")
            formula = (f"{case['fn']}(successes=s, trials={t_}) ~ x" if case["spelling"] == "successes=" else f"{case['fn']}(trials={t_}, successes=s) ~ x")
        done(formula, extra=["trials:" + case["trials"], "spelling:" + case.get("spelling", "positional")])
        full = dict(case, formula=formula)
        texpr = case["trials"].replace("trials=", "")
        if case.get("float_counts"):
            frame = frame.copy()
            frame["s"] = frame["s"].astype(float)
            frame["n"] = frame["n"].astype(float)
        try:
            dm = build(formula, frame)
            got = np.asarray(dm.response.design_matrix)
        except Exception as e:  # pylint: disable=broad-except
            ctx.fail("prop", full, f"{formula!r} raised {type(e).__name__}: {e}", "training:" + core.exc_key(e))
            return
        want_t = np.broadcast_to(np.asarray(eval(texpr, {}, {"n": frame["n"].to_numpy(), "nc": frame["nc"].to_numpy(), "N40": 40})), (len(frame),))  # pylint: disable=eval-used
        if got.shape != (len(frame), 2) or not np.array_equal(got[:, 0], frame["s"].to_numpy()) or not np.array_equal(got[:, 1], want_t):
            ctx.fail("prop", full, f"{formula!r}: response rows are not (successes, trials)", "training_values")
        new = new_frame(case, drop=("s", "y"))
        try:
            with core.Guard():
                g2 = np.asarray(dm.response.evaluate_new_data(new), dtype=float).ravel()
        except Exception as e:  # pylint: disable=broad-except
            ctx.fail("prop", full, f"{formula!r}: response.evaluate_new_data raised {type(e).__name__}: {e}", "prediction:" + type(e).__name__)
            return
        want2 = np.broadcast_to(np.asarray(eval(texpr, {}, {"n": new["n"].to_numpy(), "nc": new["nc"].to_numpy(), "N40": 40}), dtype=float), (len(new),))  # pylint: disable=eval-used
        if g2.shape != (len(new),) or not np.array_equal(g2, want2):
            ctx.fail("prop", full, f"{formula!r}: at prediction the trials of the new frame are {want2.tolist()}, got {g2.tolist()}", "prediction_values")
        return

    if kind == "prop_invalid":
        what = case["what"]
        fr = frame.copy()
        if what == "float_successes":
            fr["s"] = fr["s"].astype(float) + 0.5
            formula = "prop(s, 50) ~ x"
        elif what == "successes_gt_trials":
            fr["s"] = fr["n"] + 1
            formula = "prop(s, n) ~ x"
        elif what == "successes_gt_trials_one_row":
            fr["s"] = fr["s"].where(np.arange(len(fr)) != len(fr) // 2, fr["n"] + 2)
            formula = "prop(s, n) ~ x"
        elif what == "float_successes_one_row":
            fr["s"] = fr["s"].astype(float)
            fr.loc[fr.index[-1], "s"] = 0.5
            formula = "prop(s, 50) ~ x"
        elif what == "float_trials":
            fr["n"] = fr["n"].astype(float) + 0.25
            formula = "prop(s, n) ~ x"
        elif what == "float_constant":
            formula = "prop(s, 40.5) ~ x"
        elif what == "float32_successes":
            fr["s"] = (fr["s"].astype("float32") + np.float32(0.5))  # fractions in a narrower float type
            formula = "prop(s, 50) ~ x"
        elif what == "large_fraction":
            # 40000.3 successes out of 50000: not an integer, however small the fraction is relative to the count
            fr["s"] = fr["s"].astype(float)
            fr.loc[fr.index[0], "s"] = 40000.0 + [0.3, 0.5, 0.25][len(fr) % 3]
            fr["n"] = fr["n"] + 50000
            formula = "prop(s, n) ~ x"
        elif what == "missing_success_kept":
            # na_action='pass' keeps the row: a missing count is not an integer number of successes
            fr["s"] = fr["s"].astype(float)
            fr.loc[fr.index[len(fr) // 3], "s"] = np.nan
            formula = "prop(s, n) ~ x"
        else:
            formula = "prop(3, n) ~ x"
        done(formula, nt=True, extra=["invalid:" + what])
        try:
            build(formula, fr, **({"na_action": "pass"} if what == "missing_success_kept" else {}))
        except Exception:  # pylint: disable=broad-except
            return
        ctx.fail("prop", dict(case, formula=formula), f"{formula!r} with {what} was accepted", "invalid:" + what)
        return

    if kind == "identity":
        e = case["expr"]
        call = ("{" + e + "}") if case["brace"] else f"I({e})"
        formula = f"y ~ 0 + {call}"
        done(formula, extra=["brace" if case["brace"] else "I"])
        full = dict(case, formula=formula)
        for fr, tag in ((frame, "training"), (new_frame(case), "prediction")):
            env = {"x": fr["x"].to_numpy(dtype=float), "z": fr["z"].to_numpy(dtype=float), "np": np}
            want = np.asarray(eval(e, {}, env), dtype=float)  # pylint: disable=eval-used
            try:
                if tag == "training":
                    dm = build(formula)
                    got = col_of(dm.common.design_matrix)
                else:
                    with core.Guard():
                        got = col_of(dm.common.evaluate_new_data(fr).design_matrix)
            except Exception as ex:  # pylint: disable=broad-except
                ctx.fail("identity", full, f"{formula!r} ({tag}) raised {type(ex).__name__}: {ex}", tag + ":" + core.exc_key(ex))
                return
            if got.shape != (len(fr), 1) or not np.allclose(got[:, 0], want, rtol=1e-12, atol=0):
                ctx.fail("identity", full, f"{formula!r} ({tag}): column is not {e}", tag)
        try:
            other = build(f"y ~ 0 + I({e})" if case["brace"] else "y ~ 0 + {" + e + "}")
            if list(other.common.terms) != list(dm.common.terms):
                ctx.fail("identity", full, f"{{e}} and I(e) are named differently: {list(other.common.terms)} vs {list(dm.common.terms)}", "name")
        except Exception as ex:  # pylint: disable=broad-except
            ctx.fail("identity", full, f"the other spelling of {formula!r} raised {type(ex).__name__}: {ex}", "other_spelling")
        return

    # aliases
    pair, var = case["pair"], case["var"]
    lv = sorted(set(frame[var].tolist()))
    r = lv[case["pick"] % len(lv)]
    ic = "1" if case["intercept"] else "0"
    if pair == "B":
        a, b, part = f"y ~ {ic} + B({var}, {r!r})", f"y ~ {ic} + binary({var}, {r!r})", "common"
    elif pair in ("p", "proportion"):
        a, b, part = f"{pair}(s, n) ~ x", "prop(s, n) ~ x", "response"
    elif pair == "standardize":
        a, b, part = f"y ~ {ic} + standardize(x) + standardize(z):{var}", f"y ~ {ic} + scale(x) + scale(z):{var}", "common"
    elif pair == "T":
        a, b, part = f"y ~ {ic} + T({var})", f"y ~ {ic} + C({var}, Treatment)", "common"
    elif pair == "Tref":
        a, b, part = f"y ~ {ic} + T({var}, {r!r})", f"y ~ {ic} + C({var}, Treatment({r!r}))", "common"
    elif pair == "S":
        a, b, part = f"y ~ {ic} + S({var})", f"y ~ {ic} + C({var}, Sum)", "common"
    else:
        a, b, part = f"y ~ {ic} + S({var}, {r!r})", f"y ~ {ic} + C({var}, Sum({r!r}))", "common"
    done(a + " <> " + b, nt=nontrivial or pair in ("Tref", "Somit", "B"), extra=["pair:" + pair])
    full = dict(case, formulas=[a, b])
    try:
        da, db = build(a), build(b)
    except Exception as e:  # pylint: disable=broad-except
        ctx.fail("alias", full, f"{a!r} / {b!r} raised {type(e).__name__}: {e}", pair + ":" + core.exc_key(e))
        return
    ma, mb = np.asarray(getattr(da, part).design_matrix, dtype=float), np.asarray(getattr(db, part).design_matrix, dtype=float)
    if ma.shape != mb.shape or not np.array_equal(ma, mb):
        ctx.fail("alias", full, f"{a!r} and {b!r} give different {part} matrices", pair + ":training")
    if part == "common":
        la = [l.split("[", 1)[1] if "[" in l else "" for l in da.common.as_dataframe().columns]
        lb = [l.split("[", 1)[1] if "[" in l else "" for l in db.common.as_dataframe().columns]
        if pair in ("T", "Tref", "S", "Somit", "B") and la != lb:
            ctx.fail("alias", full, f"{a!r} and {b!r} label their levels differently: {la} vs {lb}", pair + ":labels")
        new = new_frame(case)
        try:
            with core.Guard():
                na = np.asarray(da.common.evaluate_new_data(new).design_matrix, dtype=float)
                nb = np.asarray(db.common.evaluate_new_data(new).design_matrix, dtype=float)
        except Exception as e:  # pylint: disable=broad-except
            ctx.fail("alias", full, f"{a!r} / {b!r}: evaluate_new_data raised {type(e).__name__}: {e}", pair + ":prediction")
            return
        if na.shape != nb.shape or not np.array_equal(na, nb):
            ctx.fail("alias", full, f"{a!r} and {b!r} differ on new data", pair + ":prediction")
    else:
        new = new_frame(case, drop=("s", "y"))
        try:
            with core.Guard():
                ra, rb = np.asarray(da.response.evaluate_new_data(new)), np.asarray(db.response.evaluate_new_data(new))
        except Exception as e:  # pylint: disable=broad-except
            ctx.fail("alias", full, f"{a!r} / {b!r}: response.evaluate_new_data raised {type(e).__name__}: {e}", pair + ":prediction")
            return
        if not np.array_equal(ra, rb):
            ctx.fail("alias", full, f"{a!r} and {b!r} report different trials on new data", pair + ":prediction")


def replay(ctx, case):
    judge(ctx, case)


def _worker(ctx, arg):
    shard, n = arg
    core.run_hypothesis(ctx, case_strategy(), judge, n, shard=shard)


def run(ctx):
    per = 350 if ctx.tier == "quick" else 9000
    ctx.parallel(_worker, [(k, per) for k in range(core.NPROC)])
