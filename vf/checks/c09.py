"""C09 — missing-value policy: drop / error / pass."""
import re

import numpy as np
from hypothesis import strategies as st

from vf import core, frames, rich
from vf.observe import compare_summaries, design_summary

PROPERTY = "C09"
RULE = (
    "cases = (formula, frame with missing values, na_action): variables occur bare, inside calls (positional, "
    "keyword, nested, operator expressions, back-quoted names with spaces), in interactions, group items and as the "
    "response; None/NaN patterns are drawn per column over used and unused columns (none, some, only unused); "
    "na_action in drop / error / pass and arbitrary other values; distinct = distinct (formula, frame, na_action); "
    "non-trivial = a used column and an unused column both have missing values and at least one row is complete"
)
ASSUMPTIONS = [
    "the set of used columns is computed by the harness from the formula text (names in argument position that are "
    "frame columns; callees and other names are not used)",
    "'pass' is judged on formulas of plain numeric variables, categorical variables and pointwise calls, with missing "
    "values in numeric columns only and every level occurring in a complete row (as the statement restricts it)",
    "the reference for 'drop' is the library itself on frame[complete rows] (same dtypes)",
]


def hsum(a, b=0, c=0):
    return a + b + c


DECOYS = ["scale", "np", "g1", "a", "df", "lo", "I", "hsum", "b", ""]
EXTRA_NUM = ["hsum(x, b=z)", "hsum(x, c=np.abs(z))", "`my var`", "np.abs(`my var`)", "I(x * `my var`)", "hsum(z, hsum(x, p))"]
NAN_MAKERS = ["np.log(z)", "np.sqrt(-np.abs(z) - 1)"]


@st.composite
def case_strategy(draw):
    action = draw(st.sampled_from(["drop", "drop", "error", "pass", "pass", "other"]))
    spec = draw(rich.frame_strategy(min_rows=8, max_rows=24, with_index=True, extra_unused=True))
    n = frames.nrows(spec)
    spec["cols"].append({"name": "my var", "kind": "float", "values": [round(float(v), 6) for v in frames.weyl(n, 4, 3)]})
    # unused columns named like things a formula mentions without using them as variables: a callee, a module, a level,
    # a string literal, a keyword, a built-in
    for j, decoy in enumerate(DECOYS):
        spec["cols"].append({"name": decoy, "kind": "float", "values": [float((i * (j + 2)) % 5) for i in range(n)]})
    if action == "pass":
        d = draw(rich.design(num_pool=tuple(rich.NUM_POINTWISE + EXTRA_NUM), cat_pool=tuple(rich.CAT_PLAIN), response=draw(st.sampled_from(["y", "np.abs(y)"]))))
    else:
        # under 'error', also calls that make NaN out of numbers that are there: only missing values in the variables count
        d = draw(rich.design(num_pool=tuple(rich.NUM + EXTRA_NUM + (NAN_MAKERS if action == "error" else [])), cat_pool=tuple(a for a in rich.CAT if "levels=" not in a), response=draw(st.sampled_from(["y", "y", "np.abs(y)", "h", "g['g1']"]))))
        if rich.bases(d["response"]) & rich.used_columns(dict(d, response=None)):
            d = dict(d, response="y")
            d["formula"] = rich.render(d)
    if draw(st.integers(0, 3)) == 0:
        free = [v for v in ("x", "z", "p") if v not in used_columns(d)]
        if free and not d["formula"].rstrip().endswith("- 1"):
            v = draw(st.sampled_from(free))
            d = dict(d, removed=v)
            d["formula"] = d["formula"] + f" + {v} - {v}"  # the variable is gone from the model again: it is not used
    used = used_columns(d)
    pattern = draw(st.sampled_from(["used_and_unused", "used_and_unused", "used_only", "unused_only", "none"]))
    holes = {}
    for c in spec["cols"]:
        name = c["name"]
        is_used = name in used
        if pattern == "none" or (pattern == "used_only" and not is_used) or (pattern == "unused_only" and is_used):
            continue
        if action == "pass" and is_used and c["kind"] not in ("float",):
            continue
        if c["kind"] == "bool":
            continue  # a boolean column cannot hold a missing value
        if draw(st.integers(0, 2)) == 0:
            continue
        k = draw(st.integers(1, max(1, n // 4)))
        holes[name] = sorted(draw(st.sets(st.integers(0, n - 1), min_size=1, max_size=k)))
    other = draw(st.sampled_from(["ignore", "raise", "Drop", "", "omit", None, 0, True])) if action == "other" else None
    return {"design": d, "frame": spec, "holes": holes, "na_action": action if action != "other" else other, "is_other": action == "other",
            "only_used_columns": draw(st.integers(0, 3)) == 0, "nullable_integers": action != "pass" and draw(st.integers(0, 3)) == 0}


def used_columns(d):
    out = rich.used_columns(d)  # computed from the design's structure; a term added and removed again is not in it
    text = d["formula"]
    if "`my var`" in text:
        out = set(out) | {"my var"}
    return out


def with_holes(spec, holes):
    s = {"cols": [], "index": spec.get("index")}
    for c in spec["cols"]:
        c2 = dict(c)
        if c["name"] in holes:
            vals = list(c["values"])
            for i in holes[c["name"]]:
                vals[i] = None
            c2["values"] = vals
        s["cols"].append(c2)
    return s


def judge(ctx, case):
    from formulae import design_matrices

    if ctx.skip():
        return
    rich.register_user_transform()
    d, holes, action = case["design"], case["holes"], case["na_action"]
    formula = d["formula"]
    if case.get("nullable_integers"):
        # integer columns held in pandas' nullable dtype: a missing value there is pd.NA, not NaN in a float column
        case = dict(case, frame={"cols": [dict(c, kind="Int64") if c["kind"] == "int" else c for c in case["frame"]["cols"]],
                                 "index": case["frame"].get("index")}, nullable_integers=False)
    spec = with_holes(case["frame"], holes)
    if case.get("only_used_columns"):
        keep = used_columns(d)
        spec = {"cols": [c for c in spec["cols"] if c["name"] in keep], "index": spec.get("index")}
        holes = {k: v for k, v in holes.items() if k in keep}
        case = dict(case, frame={"cols": [c for c in case["frame"]["cols"] if c["name"] in keep], "index": case["frame"].get("index")}, holes=holes)
    frame = frames.build(spec)
    pristine = frame.copy(deep=True)
    ns = dict(rich.namespace_for(frame), hsum=hsum)
    used = used_columns(d)
    n = len(frame)
    incomplete = np.zeros(n, dtype=bool)
    for name, rows in holes.items():
        if name in used:
            incomplete[rows] = True
    any_unused = any(name not in used for name in holes)
    nt = incomplete.any() and any_unused and (~incomplete).any()
    ctx.count(core.canon(case), nt, ["na_action:" + ("other" if case["is_other"] else str(action)),
                                     "incomplete_rows:" + ("none" if not incomplete.any() else ("all" if incomplete.all() else "some"))],
              sample={"formula": formula, "na_action": action, "holes": holes, "rows": n}, stratum="na_action:" + ("other" if case["is_other"] else str(action)))

    def build(fr, act):
        with core.Guard():
            out = design_matrices(formula, fr, na_action=act, extra_namespace=ns)
        if fr is frame and not (list(frame.columns) == list(pristine.columns) and frame.index.equals(pristine.index) and frame.equals(pristine)):
            ctx.fail("caller_frame", case, f"{formula!r} with na_action={act!r} modified the caller's frame ({len(pristine)} -> {len(frame)} rows)", "modified")
        return out

    # the generated formulas are valid on the frame without holes: an exception there is a failure of the
    # machinery that decides which columns the formula uses, not a rejection of the formula
    try:
        build(frames.build(case["frame"]), "drop")
    except Exception as e:  # pylint: disable=broad-except
        ctx.fail("raises", dict(case, holes={}), f"{formula!r} raised {type(e).__name__}: {e} on a frame without missing values", core.exc_key(e))
        return
    if case["is_other"]:
        try:
            build(frame, action)
        except ValueError:
            return
        except Exception as e:  # pylint: disable=broad-except
            ctx.fail("other_action", case, f"na_action={action!r} raised {type(e).__name__} instead of ValueError: {e}", type(e).__name__)
            return
        ctx.fail("other_action", case, f"na_action={action!r} was accepted", "accepted")
        return

    complete = frame[~incomplete]
    if action == "error":
        try:
            build(frame, "error")
            raised = None
        except ValueError as e:
            raised = e
        except Exception as e:  # pylint: disable=broad-except
            ctx.reject(e)
            return
        if incomplete.any() and raised is None:
            ctx.fail("error", case, f"{formula!r}: rows {list(np.flatnonzero(incomplete))[:6]} have missing values in used columns but na_action='error' did not raise", "not_raised")
        if not incomplete.any() and raised is not None:
            # could be a genuine error of the formula: only a violation if the same formula builds under 'drop'
            try:
                build(frame, "drop")
            except Exception:  # pylint: disable=broad-except
                ctx.reject(raised)
                return
            ctx.fail("error", case, f"{formula!r}: no used column has a missing value (holes only in {sorted(holes)}) but na_action='error' raised: {raised}", "raised")
        return

    if len(complete) == 0:
        ctx.classes["unjudged:no_complete_row"] += 1
        return
    # reference: the library on the frame without the incomplete rows
    try:
        ref = design_summary(build(complete, "drop"))
    except Exception as e:  # pylint: disable=broad-except
        ctx.reject(e)
        try:
            build(frame, action)
        except Exception:  # pylint: disable=broad-except
            return
        if action == "drop":
            ctx.fail("drop", case, f"{formula!r} raises {type(e).__name__} on the complete rows but is accepted with the incomplete rows present", "status")
        return
    if action == "drop":
        try:
            got = design_summary(build(frame, "drop"))
        except Exception as e:  # pylint: disable=broad-except
            ctx.fail("drop", case, f"{formula!r}: na_action='drop' raised {type(e).__name__}: {e} (holes {holes})", core.exc_key(e))
            return
        rows = {k: got[k].shape[0] for k in ("response", "common", "group") if got[k] is not None}
        if len(set(rows.values())) > 1 or (rows and set(rows.values()) != {len(complete)}):
            ctx.fail("drop", case, f"{formula!r}: row counts {rows}, expected {len(complete)} complete rows", "row_count")
            return
        diffs = compare_summaries(ref, got, exact=True)
        for key, msg in diffs[:2]:
            ctx.fail("drop", case, f"{formula!r}: result differs from running on the data without the incomplete rows (holes {holes}): {key}: {msg}"[:600], key)
        return
    # pass
    for c in spec["cols"]:
        if c["name"] in used and c["kind"] in ("str", "cat", "int"):
            full = set(v for v in c["values"] if v is not None)
            kept = set(v for i, v in enumerate(c["values"]) if v is not None and not incomplete[i])
            if full != kept:
                ctx.classes["unjudged:level_only_in_incomplete_rows"] += 1
                return
    try:
        got = design_summary(build(frame, "pass"))
    except Exception as e:  # pylint: disable=broad-except
        ctx.fail("pass", case, f"{formula!r}: na_action='pass' raised {type(e).__name__}: {e} (holes {holes})", core.exc_key(e))
        return
    for key in ("response", "common", "group"):
        if (got[key] is None) != (ref[key] is None):
            ctx.fail("pass", case, f"{formula!r}: {key} matrix present under one policy only", key)
            return
        if got[key] is None:
            continue
        if got[key].shape[0] != n:
            ctx.fail("pass", case, f"{formula!r}: {key} has {got[key].shape[0]} rows under 'pass', frame has {n}", "row_count")
            return
        if got[key].shape[1] != ref[key].shape[1] or got[key + "_labels" if key != "response" else "response_meta"] != ref[key + "_labels" if key != "response" else "response_meta"]:
            ctx.fail("pass", case, f"{formula!r}: {key} columns differ between 'pass' and 'drop'", "columns")
            return
        if not np.array_equal(got[key][~incomplete], ref[key]):
            ctx.fail("pass", case, f"{formula!r}: complete rows of {key} are not encoded as under 'drop' (holes {holes})", key + ":complete_rows")
            return
        if key == "response":
            labels = [d["response"]]
        else:
            labels = got[key + "_labels"]
        for i in np.flatnonzero(incomplete):
            missing = {name for name, rows in holes.items() if i in rows and name in used}
            for j, lab in enumerate(labels):
                plain = re.sub(r"\[[^\]]*\]", "", lab)  # level names are not variables
                mentions = rich.bases(plain) | ({"my var"} if "my var" in plain else set())
                want_nan = bool(missing & mentions)
                is_nan = bool(np.isnan(got[key][i, j]))
                if want_nan != is_nan:
                    ctx.fail("pass", case, f"{formula!r}: row {i} misses {sorted(missing)}; column {lab!r} of {key} is {'NaN' if is_nan else got[key][i, j]}"
                             f" but should {'be NaN' if want_nan else 'hold a value'}", key + ":nan_placement")
                    return


def replay(ctx, case):
    judge(ctx, case)


def _worker(ctx, arg):
    shard, n = arg
    core.run_hypothesis(ctx, case_strategy(), judge, n, shard=shard)


def run(ctx):
    per = 250 if ctx.tier == "quick" else 2500
    ctx.parallel(_worker, [(k, per) for k in range(core.NPROC)])
