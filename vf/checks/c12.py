"""C12 — call terms evaluate like the Python expression they spell (differential against eval)."""
import ast
import random
import warnings

import numpy as np
import pandas as pd
from hypothesis import strategies as st

from vf import core

PROPERTY = "C12"
RULE = (
    "cases = argument expressions: operator trees to depth 5 over columns x z w (positive floats), integer and float "
    "literals (12, 1.5, .5), strings in either quote style containing spaces, commas, brackets and the other quote "
    "character, True / False / None, + - * / **, unary + -, comparisons, parentheses, nested calls to a recording "
    "function and to np.log / np.exp / np.power / np.where / np.abs, keyword arguments; rendered with minimal (Python) "
    "parentheses plus drawn redundant ones and drawn whitespace; each placed in probe(e), I(e) and {e}; distinct = "
    "distinct text; non-trivial = >= 2 operators of different Python precedence, or a unary sign next to **, or a "
    "nested call with a keyword argument, or a string literal"
)
ASSUMPTIONS = [
    "not generated (undocumented, refused or different by design): // % @ boolean operators, chained comparisons, "
    "subscripts, lambdas, exponent literals, backslash escapes",
    "values compared with rtol 1e-12 (NaN = NaN); the recording function's log (argument kinds, keyword names, "
    "literal values and types) must be identical in both runs",
    "names: whitespace variants must share one name; the name must equal the canonical single-space rendering; "
    "expressions with different Python ASTs must have different names",
]

N = 7
COLS = {"x": [0.5 + 0.37 * ((i * 5) % 7) for i in range(N)], "z": [1.9 - 0.21 * ((i * 3) % 7) for i in range(N)],
        "w": [1.0 + 0.5 * ((i * 2) % 5) for i in range(N)]}
PY_PREC = {"==": 1, "!=": 1, "<": 1, "<=": 1, ">": 1, ">=": 1, "+": 2, "-": 2, "*": 3, "/": 3, "**": 5}
UNARY_PREC = 4
CMP = ["==", "!=", "<", "<=", ">", ">="]
STRINGS = ["'a'", '"b"', "'a b'", "'Zürich'", '"naïve – ñ"', '"c, d"', "'e)f'", "'g[h]'", "'say \"hi\"'", '"it\'s"', "''", "'x + z'"]
NUMS = ["1", "2", "3", "12", "1.5", "0.5", "2.25", ".5", "3.0"]


def leaf():
    col = st.sampled_from(["x", "z", "w", "x", "z", "w", "m"]).map(lambda c: ("col", c))  # m: an array of the namespace with missing values
    num = st.sampled_from(NUMS).map(lambda t: ("num", t))
    return st.one_of(col, col, col, num)


def arg_leaf():
    s = st.sampled_from(STRINGS).map(lambda t: ("str", t))
    py = st.sampled_from(["True", "False", "None"]).map(lambda t: ("py", t))
    return st.one_of(s, py)


def extend(ch):
    arith = st.tuples(st.just("bin"), st.sampled_from(["+", "-", "*", "/", "**", "+", "*"]), ch, ch)
    cmp_ = st.tuples(st.just("bin"), st.sampled_from(CMP), ch, ch)
    un = st.tuples(st.just("un"), st.sampled_from(["-", "+"]), ch)
    par = st.tuples(st.just("par"), ch)
    kw = st.tuples(st.sampled_from(["k", "m"]), st.one_of(ch, arg_leaf()))
    rec = st.tuples(st.just("call"), st.just("rec"), st.lists(st.one_of(ch, ch, arg_leaf()), min_size=1, max_size=3).map(tuple),
                    st.lists(kw, max_size=2, unique_by=lambda t: t[0]).map(tuple))
    np1 = st.tuples(st.just("call"), st.sampled_from(["np.abs", "np.exp", "np.sqrt"]), st.tuples(ch), st.just(()))
    np2 = st.tuples(st.just("call"), st.just("np.power"), st.tuples(ch, st.sampled_from(NUMS[:3]).map(lambda t: ("num", t))), st.just(()))
    where = st.tuples(st.just("call"), st.just("np.where"), st.tuples(st.tuples(st.just("bin"), st.sampled_from(CMP), ch, ch), ch, ch), st.just(()))
    return st.one_of(arith, arith, arith, cmp_, un, par, rec, np1, np2, where)


TREE = st.recursive(leaf(), extend, max_leaves=9)


@st.composite
def chain(draw):
    """Operator chains `a op b op c op d` (2-4 operators, arithmetic and one optional comparison) built as left- or
    right-nested trees: associativity and relative precedence are what decides their value."""
    n = draw(st.integers(2, 4))
    ops = [draw(st.sampled_from(["+", "-", "*", "/", "-", "/", "**"])) for _ in range(n)]
    operands = [draw(leaf()) for _ in range(n + 1)]
    if draw(st.booleans()):
        i = draw(st.integers(0, n))
        operands[i] = ("un", draw(st.sampled_from(["-", "+"])), operands[i])
    shape = draw(st.sampled_from(["left", "left", "right", "mixed"]))
    if shape == "left":
        t = operands[0]
        for op, b in zip(ops, operands[1:]):
            t = ("bin", op, t, b)
    elif shape == "right":
        t = operands[-1]
        for op, a in zip(reversed(ops), reversed(operands[:-1])):
            t = ("bin", op, a, t)
    else:
        k = draw(st.integers(1, n))
        left = operands[0]
        for op, b in zip(ops[: k - 1], operands[1:k]):
            left = ("bin", op, left, b)
        right = operands[k]
        for op, b in zip(ops[k:], operands[k + 1 :]):
            right = ("bin", op, right, b)
        t = ("bin", ops[k - 1], left, right)
    if draw(st.integers(0, 3)) == 0:
        t = ("bin", draw(st.sampled_from(CMP)), t, draw(leaf()))
    return t


def prec(t):
    if t[0] == "bin":
        return PY_PREC[t[1]]
    if t[0] == "un":
        return UNARY_PREC
    return 9


def render(t, rnd=None, canonical=False):
    """Python-minimal parentheses; with `rnd`: drawn whitespace (and nothing else)."""
    def sp():
        return " " if rnd is None else rnd.choice(["", " ", "  ", " \t"])

    def tight():
        return "" if rnd is None else rnd.choice(["", "", " "])

    def r(n):
        k = n[0]
        if k == "col":
            return n[1]
        if k == "num":
            if canonical:
                return repr(float(n[1])) if ("." in n[1]) else n[1]
            return n[1]
        if k in ("str", "py"):
            return n[1]
        if k == "par":
            return "(" + tight() + r(n[1]) + tight() + ")"
        if k == "un":
            inner = r(n[2])
            if n[2][0] == "bin" and not (n[2][1] == "**"):
                inner = "(" + inner + ")"
            elif n[2][0] == "un":
                inner = (" " if rnd is None else " ") + inner if False else inner
            return n[1] + (tight() if n[2][0] != "un" else "") + inner
        if k == "bin":
            op, p = n[1], PY_PREC[n[1]]
            l, rt = r(n[2]), r(n[3])
            if op == "**":
                # right associative; a unary on the left needs parentheses, on the right it does not
                if n[2][0] in ("bin", "un"):
                    l = "(" + l + ")"
                if n[3][0] == "bin" and PY_PREC[n[3][1]] < 5:
                    rt = "(" + rt + ")"
            elif op in CMP:
                if n[2][0] == "bin" and n[2][1] in CMP:
                    l = "(" + l + ")"
                if n[3][0] == "bin" and n[3][1] in CMP:
                    rt = "(" + rt + ")"
            else:
                if prec(n[2]) < p:
                    l = "(" + l + ")"
                if prec(n[3]) < p or (prec(n[3]) == p and n[3][0] == "bin"):
                    rt = "(" + rt + ")"
            if canonical:
                return f"{l} {op} {rt}"
            return l + sp() + op + sp() + rt
        if k == "call":
            args = [r(a) for a in n[2]] + [kw[0] + (tight() if not canonical else "") + "=" + (tight() if not canonical else "") + r(kw[1]) for kw in n[3]]
            if canonical:
                return n[1] + "(" + ", ".join(args) + ")"
            return n[1] + tight() + "(" + tight() + ("," + sp()).join(args) + tight() + ")"
        raise ValueError(k)

    return r(t)


def pow_pitfall(t):
    """KF-C12-1 class: a unary sign applied to an unparenthesised ** (Python: -(x**2)), or a ** whose right operand is
    an unparenthesised ** (Python associates to the right)."""
    if not isinstance(t, tuple) or not t:
        return False
    k = t[0]
    if k == "un" and t[2][0] == "bin" and t[2][1] == "**":
        return True
    if k == "bin" and t[1] == "**" and t[3][0] == "bin" and t[3][1] == "**":
        return True
    if k in ("col", "num", "str", "py"):
        return False
    if k == "par":
        return pow_pitfall(t[1])
    if k == "un":
        return pow_pitfall(t[2])
    if k == "bin":
        return pow_pitfall(t[2]) or pow_pitfall(t[3])
    if k == "call":
        return any(pow_pitfall(a) for a in t[2]) or any(pow_pitfall(kw[1]) for kw in t[3])
    return False


def has_column(t):
    if not isinstance(t, tuple) or not t:
        return False
    if t[0] == "col":
        return True
    if t[0] in ("num", "str", "py"):
        return False
    if t[0] == "call":
        return any(has_column(a) for a in t[2]) or any(has_column(kw[1]) for kw in t[3])
    return any(has_column(c) for c in t[1:] if isinstance(c, tuple))


def integer_tower(t):
    """A `**` between column-free operands that is not literal ** literal: Python (and the library) would compute an
    astronomically large integer, e.g. 3 ** 12 ** 12.  Such expressions are not generated into the oracle."""
    if not isinstance(t, tuple) or not t or t[0] in ("col", "num", "str", "py"):
        return False
    if t[0] == "bin" and t[1] == "**" and not has_column(t[2]) and not has_column(t[3]):
        if t[2][0] != "num" or t[3][0] != "num":
            return True
    if t[0] == "call":
        return any(integer_tower(a) for a in t[2]) or any(integer_tower(kw[1]) for kw in t[3])
    return any(integer_tower(c) for c in t[1:] if isinstance(c, tuple))


def nontrivial(t):
    precs, flags = set(), set()

    def walk(n):
        k = n[0]
        if k == "bin":
            precs.add(PY_PREC[n[1]])
            if n[1] == "**" and (n[2][0] == "un" or n[3][0] == "un"):
                flags.add("unary_pow")
            walk(n[2])
            walk(n[3])
        elif k == "un":
            precs.add(UNARY_PREC)
            if n[2][0] == "bin" and n[2][1] == "**":
                flags.add("unary_pow")
            walk(n[2])
        elif k == "par":
            walk(n[1])
        elif k == "call":
            if n[3]:
                flags.add("kwarg")
            for a in n[2]:
                walk(a)
            for kw in n[3]:
                walk(kw[1])
        elif k == "str":
            flags.add("string")

    walk(t)
    return len(precs) >= 2 or bool(flags)


class Recorder:
    def __init__(self):
        self.log = []

    def describe(self, v):
        if isinstance(v, (pd.Series, np.ndarray)):
            a = np.asarray(v, dtype=float)
            return ("array", a.shape, [None if np.isnan(t) else round(float(t), 9) for t in a.ravel()[:N]])
        return (type(v).__name__, repr(v))

    def __call__(self, *a, **k):
        self.log.append(([self.describe(v) for v in a], sorted((n, self.describe(v)) for n, v in k.items())))
        out = None
        for v in list(a) + [k[n] for n in sorted(k)]:
            if isinstance(v, (pd.Series, np.ndarray)):
                arr = np.asarray(v, dtype=float)
                out = arr if out is None else out + 2 * arr
            elif isinstance(v, str):
                out = (0.0 if out is None else out) + len(v)
            elif isinstance(v, bool):
                out = (0.0 if out is None else out) + (10 if v else 20)
            elif v is None:
                out = (0.0 if out is None else out) + 30
            elif isinstance(v, (int, float)):
                out = (0.0 if out is None else out) + 3 * v
        return out if isinstance(out, np.ndarray) else np.full(N, float(out))


def probe(v):
    return v


def _nodes(t, path=()):
    yield path, t
    if isinstance(t, tuple) and t and t[0] in ("bin", "un", "par", "call"):
        if t[0] == "bin":
            yield from _nodes(t[2], path + (2,))
            yield from _nodes(t[3], path + (3,))
        elif t[0] == "un":
            yield from _nodes(t[2], path + (2,))
        elif t[0] == "par":
            yield from _nodes(t[1], path + (1,))
        else:
            for i, a in enumerate(t[2]):
                yield from _nodes(a, path + (2, i))
            for i, kw in enumerate(t[3]):
                yield from _nodes(kw[1], path + (3, i, 1))


def _replace(t, path, new):
    if not path:
        return new
    lst = list(t)
    lst[path[0]] = _replace(t[path[0]], path[1:], new)
    return tuple(lst)


@st.composite
def near_copy(draw, t):
    """The same call with one detail changed: operands swapped, another operator, another literal, another keyword
    value.  Two such calls are different calls and must be two terms."""
    nodes = list(_nodes(t))
    path, node = nodes[draw(st.integers(0, len(nodes) - 1))]
    k = node[0] if isinstance(node, tuple) and node else None
    if k == "bin":
        how = draw(st.sampled_from(["swap", "op"]))
        if how == "swap":
            new = ("bin", node[1], node[3], node[2])
        else:
            pool = CMP if node[1] in CMP else ["+", "-", "*", "/"]
            new = ("bin", draw(st.sampled_from([o for o in pool if o != node[1]])), node[2], node[3])
    elif k == "num":
        # another literal; for some numbers also the literal of another type that compares equal in Python
        twins = {"1": [("py", "True"), ("num", "1.0")], "3": [("num", "3.0")], "3.0": [("num", "3")], "2": [("num", "2.0")], "0.5": [("num", ".50")]}
        if node[1] in twins and draw(st.booleans()):
            new = draw(st.sampled_from(twins[node[1]]))
        else:
            new = ("num", draw(st.sampled_from([n for n in NUMS if n != node[1]])))
    elif k == "col":
        new = ("col", draw(st.sampled_from([c for c in ("x", "z", "w") if c != node[1]])))
    elif k == "str":
        new = ("str", draw(st.sampled_from([x for x in STRINGS if x != node[1]])))
    elif k == "py":
        if node[1] in ("True", "False") and draw(st.booleans()):
            new = ("num", "1" if node[1] == "True" else "0")  # equal in Python, another literal
        else:
            new = ("py", draw(st.sampled_from([x for x in ("True", "False", "None") if x != node[1]])))
    elif k == "un":
        if node[2][0] == "num" and draw(st.booleans()):
            # -1 and -2 are different numbers with the same hash in CPython
            new = ("un", node[1], ("num", {"1": "2", "2": "1"}.get(node[2][1], "1" if node[2][1] != "1" else "2")))
        else:
            new = node[2]
    else:
        new = ("bin", "+", node, ("num", "1"))
    return _replace(t, path, new)


@st.composite
def none_comparison(draw):
    """`e == None` / `None != e`: in Python an element-wise comparison with None (all False / all True), also where the
    operand holds missing values."""
    e = ("col", draw(st.sampled_from(["m", "m", "x", "w"])))
    if draw(st.booleans()):
        e = ("bin", draw(st.sampled_from(["+", "*"])), e, ("num", draw(st.sampled_from(NUMS))))
    op = draw(st.sampled_from(["==", "!="]))
    none = ("py", "None")
    return ("bin", op, e, none) if draw(st.booleans()) else ("bin", op, none, e)


@st.composite
def case_strategy(draw):
    t = draw(st.one_of(TREE, TREE, TREE, TREE, chain(), chain(), none_comparison()))
    other = draw(st.sampled_from(["none", "independent", "near", "near"]))
    o = None if other == "none" else (draw(TREE) if other == "independent" else draw(near_copy(t)))
    return {"tree": t, "layout_seed": draw(st.integers(0, 2**20)), "wrapper": draw(st.sampled_from(["probe", "I", "brace"])), "other": o}


def _tup(x):
    if isinstance(x, list):
        return tuple(_tup(i) for i in x)
    return x


# two more data columns, only used by the literal cases: a name of several characters that is also a variable of the
# caller (the data column wins), and an ordered categorical whose order is not alphabetical
EXTRA_COLS = {"height": [1.5 + 0.1 * ((i * 3) % 7) for i in range(N)]}
SIZES = ["small", "medium", "large"]


def _size_column():
    return pd.Series(pd.Categorical([SIZES[(i * 2) % 3] for i in range(N)], categories=SIZES, ordered=True))


def py_value(text, rec):
    env = {c: pd.Series(v, dtype=float) for c, v in COLS.items()}
    env.update(USER, rec=rec, np=np, probe=probe, m=MISSING.copy())
    env.update({c: pd.Series(v, dtype=float) for c, v in EXTRA_COLS.items()}, size=_size_column())  # data columns come first
    return eval(text, {"__builtins__": {}}, env)  # pylint: disable=eval-used


MISSING = np.array([1.5, np.nan, 0.5, np.nan, 2.0, -1.0, 0.25])


def _user_round(v, nd=0):  # functions of the caller that carry the names of Python built-ins
    return np.asarray(v, dtype=float) * 7 + nd


def _user_max(v):
    return np.asarray(v, dtype=float) - 100


USER = {"round": _user_round, "max": _user_max}


def lib_design(formula, rec):
    from formulae import design_matrices

    frame = pd.DataFrame(dict(COLS, **EXTRA_COLS, y=[float(i) for i in range(N)]))
    frame["size"] = _size_column()
    return design_matrices(formula, frame, extra_namespace=dict(USER, rec=rec, np=np, probe=probe, m=MISSING.copy(), height=np.zeros(N) - 5.0))


@st.composite
def comparison_chain(draw):
    """`a < b <= c`: Python chains comparisons, (a < b) and (b <= c)."""
    num = st.sampled_from(["1", "2", "1.5", "0.5", "3"]).map(lambda n: ("num", n))
    col = st.sampled_from(["x", "z", "w"]).map(lambda c: ("col", c))

    def operand(leaf):
        return st.one_of(leaf, leaf, st.tuples(st.just("bin"), st.sampled_from(["+", "-", "*"]), leaf, num))

    # Python refuses a chain with a column in the middle (the truth value of a Series is ambiguous): the leading
    # operands are numbers, the column comes last (a few chains of the other kind are drawn too, and counted as refused)
    ops = [draw(st.sampled_from(CMP)) for _ in range(draw(st.integers(2, 3)))]
    operands = [draw(operand(num if draw(st.integers(0, 9)) else col)) for _ in range(len(ops))] + [draw(operand(col))]
    return {"kind": "cmp_chain", "operands": operands, "ops": ops, "layout_seed": draw(st.integers(0, 2**20)),
            "wrapper": draw(st.sampled_from(["probe", "I", "brace"]))}


def judge_cmp_chain(ctx, case):
    rnd = random.Random(case["layout_seed"])
    parts = [render(_tup(o), rnd) for o in case["operands"]]
    text = parts[0]
    for op, p_ in zip(case["ops"], parts[1:]):
        text += rnd.choice(["", " ", "  "]) + op + rnd.choice(["", " "]) + p_
    wrapper = case["wrapper"]
    call = {"probe": f"probe({text})", "I": f"I({text})", "brace": "{" + text + "}"}[wrapper]
    formula = f"y ~ 0 + {call}"
    ctx.count(text, True, ["comparison_chain", "wrapper:" + wrapper], sample={"formula": formula}, stratum="comparison_chain")
    full = dict(case, formula=formula, text=text)
    try:
        want = np.asarray(py_value(text, Recorder()), dtype=float)
    except Exception as e:  # pylint: disable=broad-except
        ctx.reject(e)  # e.g. the truth value of a Series is ambiguous: Python itself refuses a chain of columns
        return
    if want.shape != (N,):
        ctx.classes["unjudged:not_a_column"] += 1
        return
    try:
        with core.Guard():
            got = np.asarray(lib_design(formula, Recorder()).common.design_matrix, dtype=float)
    except Exception as e:  # pylint: disable=broad-except
        ctx.fail("value", full, f"{formula!r}: Python evaluates the argument, formulae raised {type(e).__name__}: {e}", core.exc_key(e))
        return
    if got.shape != (N, 1) or not np.allclose(got[:, 0], want, rtol=1e-12, atol=0, equal_nan=True):
        ctx.fail("value", full, f"{formula!r}: column {got[:4, 0].tolist() if got.ndim == 2 else got.shape}... but Python evaluates {text!r} to {want[:4].tolist()}...", "chain")


def _kf_cmp_chain(case, clause, detail):  # pylint: disable=unused-argument
    """KF-C12-2: a chain of comparisons is read as nested binary comparisons, ((a < b) <= c).  Only that value is known."""
    if case.get("kind") != "cmp_chain":
        return False
    try:
        parts = [render(_tup(o), None) for o in case["operands"]]
        text = parts[0]
        for op, p_ in zip(case["ops"], parts[1:]):
            text = f"({text}) {op} {p_}"
        want = np.asarray(py_value(text, Recorder()), dtype=float)
        with core.Guard():
            got = np.asarray(lib_design(case["formula"], Recorder()).common.design_matrix, dtype=float)
        return got.shape == (N, 1) and bool(np.allclose(got[:, 0], want, rtol=1e-12, atol=0, equal_nan=True))
    except Exception:  # pylint: disable=broad-except
        return False


def judge(ctx, case):
    if ctx.skip():
        return
    if case.get("kind") == "cmp_chain":
        judge_cmp_chain(ctx, case)
        return
    if case.get("kind") == "twins":
        twin_pairs(ctx)
        return
    t = _tup(case["tree"])
    if integer_tower(t) or (case.get("other") is not None and integer_tower(_tup(case["other"]))):
        ctx.count(core.canon(case["tree"]), False, ["unjudged:integer_power_tower"])
        return
    rnd = random.Random(case["layout_seed"])
    text = render(t, rnd)
    canon = render(t, None, canonical=True)
    wrapper = case["wrapper"]
    call = {"probe": f"probe({text})", "I": f"I({text})", "brace": "{" + text + "}"}[wrapper]
    formula = f"y ~ 0 + {call}"
    pit = pow_pitfall(t)
    ctx.count(text, nontrivial(t), ["wrapper:" + wrapper] + (["pow_pitfall"] if pit else []), sample={"formula": formula, "canonical": canon},
              stratum="wrapper:" + wrapper)
    full = dict(case, formula=formula, pitfall=pit)
    warnings.simplefilter("ignore")
    np.seterr(all="ignore")
    r1 = Recorder()
    try:
        with core.TimeLimit(20, library=False):
            want = py_value(text, r1)
    except Exception as e:  # pylint: disable=broad-except
        ctx.reject(e)  # Python itself refuses (e.g. None + 1): nothing to compare
        return
    if not isinstance(want, (pd.Series, np.ndarray)) or np.asarray(want).shape != (N,):
        ctx.classes["unjudged:not_a_column"] += 1
        return
    want = np.asarray(want, dtype=float)
    r2 = Recorder()
    try:
        with core.Guard():
            dm = lib_design(formula, r2)
    except Exception as e:  # pylint: disable=broad-except
        ctx.fail("raises", full, f"{formula!r}: Python evaluates the argument, formulae raised {type(e).__name__}: {e}", core.exc_key(e))
        return
    got = np.asarray(dm.common.design_matrix, dtype=float)
    if got.shape != (N, 1):
        ctx.fail("value", full, f"{formula!r}: design matrix has shape {got.shape}", "shape")
        return
    if not np.allclose(got[:, 0], want, rtol=1e-12, atol=0, equal_nan=True):
        ctx.fail("value", full, f"{formula!r}: column {got[:3, 0].tolist()}... but Python evaluates {text!r} to {want[:3].tolist()}...", "differs")
    elif r1.log != r2.log:
        ctx.fail("value", full, f"{formula!r}: the recording function saw {r2.log[:2]} under formulae and {r1.log[:2]} under Python", "arguments")
    # ---- names -------------------------------------------------------------------------------------
    name = list(dm.common.terms)[0]
    inner = canon
    want_name = f"probe({inner})" if wrapper == "probe" else f"I({inner})"
    if name != want_name:
        ctx.fail("name", full, f"{formula!r}: term is named {name!r}, the source normalised to single spaces is {want_name!r}", "normal_form")
    v2 = render(t, random.Random(case["layout_seed"] + 1))
    call2 = {"probe": f"probe({v2})", "I": f"I({v2})", "brace": f"I({v2})"}[wrapper]
    try:
        with core.Guard():
            both = lib_design(f"y ~ 0 + {call} + {call2}", Recorder())
        if len(both.common.terms) != 1 or np.asarray(both.common.design_matrix).shape[1] != 1:
            ctx.fail("name", full, f"whitespace variants {call!r} and {call2!r} are {len(both.common.terms)} terms: {list(both.common.terms)}", "variants")
    except Exception as e:  # pylint: disable=broad-except
        ctx.fail("name", full, f"'y ~ 0 + {call} + {call2}' raised {type(e).__name__}: {e}", "variants:" + core.exc_key(e))
    if case.get("other") is not None:
        o = _tup(case["other"])
        otext = render(o, None)
        try:
            same_ast = ast.dump(ast.parse(otext, mode="eval")) == ast.dump(ast.parse(render(t, None), mode="eval"))
        except SyntaxError:
            return
        if same_ast or render(o, None, canonical=True) == canon:
            return
        w = "probe" if wrapper == "probe" else "I"
        try:
            py_value(otext, Recorder())
        except Exception:  # pylint: disable=broad-except
            return
        for first, second in ((render(t, None), otext), (otext, render(t, None))):
            try:
                with core.Guard():
                    two = lib_design(f"y ~ 0 + {w}({first}) + {w}({second})", Recorder())
            except Exception as e:  # pylint: disable=broad-except
                ctx.reject(e)
                return
            if len(two.common.terms) != 2:
                ctx.fail("name", dict(full, other_text=otext), f"different calls {w}({first}) and {w}({second}) are one term: {list(two.common.terms)}", "different_calls")
                break


def replay(ctx, case):
    judge(ctx, case)


def _grp(n):
    """An operand that the text shows in parentheses (left operands of ** are parenthesised by the renderer)."""
    return n if n[0] in ("col", "num", "str", "py", "par", "call") else ("par", n)


def as_library_reads(t):
    """The tree the recorded deviation KF-C12-1 makes of `t`: inside call arguments a unary sign binds tighter than **
    and ** associates to the left (everything else as in Python)."""
    if not isinstance(t, tuple) or not t or t[0] in ("col", "num", "str", "py"):
        return t
    k = t[0]
    if k == "par":
        return ("par", as_library_reads(t[1]))
    if k == "call":
        return ("call", t[1], tuple(as_library_reads(a) for a in t[2]), tuple((kw[0], as_library_reads(kw[1])) for kw in t[3]))
    if k == "un":
        inner = t[2]
        if inner[0] == "bin" and inner[1] == "**":  # -a ** b  is read as  (-a) ** b
            return as_library_reads(("bin", "**", ("par", ("un", t[1], _grp(inner[2]))), inner[3]))
        return ("un", t[1], as_library_reads(inner))
    if k == "bin":
        if t[1] == "**":
            right = t[3]
            if right[0] == "un" and right[2][0] == "bin" and right[2][1] == "**":  # a ** -b ** c  is read as  (a ** -b) ** c
                right = ("bin", "**", ("par", ("un", right[1], _grp(right[2][2]))), right[2][3])
            if right[0] == "bin" and right[1] == "**":  # a ** b ** c  is read as  (a ** b) ** c
                return as_library_reads(("bin", "**", ("par", ("bin", "**", t[2], _grp(right[2]))), right[3]))
            return ("bin", "**", as_library_reads(t[2]), as_library_reads(right))
        return ("bin", t[1], as_library_reads(t[2]), as_library_reads(t[3]))
    return t


def _kf_pow(case, clause, detail):  # pylint: disable=unused-argument
    """A case of the class (unary sign on, or chain of, unparenthesised **) whose column is exactly what the recorded
    reading gives; any other value for such an expression is reported."""
    if not case.get("pitfall") or clause not in ("value", "raises"):
        return False
    if clause == "raises":
        # the recorded reading can also turn an expression Python evaluates into one it refuses, e.g. booleans:
        # b ** (c ** x) is fine, (b ** c) ** x is "pow not implemented for bool"
        try:
            py_value(render(as_library_reads(_tup(case["tree"])), None), Recorder())
        except Exception:  # pylint: disable=broad-except
            return True
        return False
    try:
        t = _tup(case["tree"])
        want = np.asarray(py_value(render(as_library_reads(t), None), Recorder()), dtype=float)
        with core.Guard():
            got = np.asarray(lib_design(case["formula"], Recorder()).common.design_matrix, dtype=float)
        return got.shape == (N, 1) and bool(np.allclose(got[:, 0], want, rtol=1e-12, atol=0, equal_nan=True))
    except Exception:  # pylint: disable=broad-except
        return False


KNOWN_CLASSES = {"unary_or_chained_power": _kf_pow, "comparison_chain": _kf_cmp_chain}


TWINS = [("x ** -1", "x ** -2"), ("rec(x, -1)", "rec(x, -2)"), ("rec(x, k=-1)", "rec(x, k=-2)"), ("x - 1", "x - 2"), ("rec(1)", "rec(True)"),
         ("rec(0)", "rec(False)"), ("rec(1)", "rec(1.0)"), ("rec('a')", 'rec("a")'), ("rec(-1.0)", "rec(-2.0)"), ("rec(x, k=1)", "rec(x, k=1, j=None)"),
         ("rec(x)", "rec(x, k=3)"), ("x + z", "z + x"), ("rec(None)", "rec(0)"), ("rec('1')", "rec(1)"), ("x * -1", "x * -2"), ("rec(-1, -2)", "rec(-2, -1)")]


def twin_pairs(ctx):
    """Pairs of calls that are different calls although something about them coincides (equal hashes of -1 and -2 in
    CPython, equal values of 1 / True / 1.0, the same characters between other quotes): two terms, in either order."""
    for a, b in TWINS:
        for first, second in ((a, b), (b, a)):
            for w in ("probe", "I"):
                formula = f"y ~ 0 + {w}({first}) + {w}({second})"
                case = {"kind": "twins", "formula": formula}
                ctx.count(formula, True, ["twin_pair"], sample={"formula": formula}, stratum="twin_pair")
                try:
                    with core.Guard():
                        two = lib_design(formula, Recorder())
                except Exception as e:  # pylint: disable=broad-except
                    ctx.reject(e)
                    continue
                if len(two.common.terms) != 2:
                    ctx.fail("name", case, f"different calls {w}({first}) and {w}({second}) are one term: {list(two.common.terms)}", "different_calls")


LITERALS = [
    ("call", "rec", (("num", "9007199254740993"),), ()),  # 2 ** 53 + 1: not a double
    ("call", "rec", (("col", "x"),), (("k", ("num", "1600000000000000001")),)),
    ("bin", ">", ("bin", "*", ("col", "x"), ("num", "9007199254740993")), ("num", "9007199254740992")),
    ("call", "rec", (("str", "'a  b'"),), ()),  # blanks inside a string are part of the string
    ("call", "rec", (("str", "'a\tb'"),), ()),
    ("call", "rec", (("str", "'  lead and trail  '"), ("str", '"two  blanks"')), ()),
    ("call", "rec", (("num", "0.1"), ("num", "0.30000000000000004")), ()),
    ("bin", "/", ("col", "w"), ("bin", "**", ("par", ("col", "height")), ("num", "2"))),  # (height): the column, in parentheses
    ("call", "rec", (("par", ("col", "height")),), (("k", ("par", ("col", "height"))),)),
    ("bin", "<", ("col", "size"), ("str", "'medium'")),  # an ordered categorical compares by its order
    ("bin", ">=", ("col", "size"), ("str", '"medium"')),
    ("call", "round", (("col", "x"),), ()),  # the caller's own `round` and `max`, not Python's
    ("call", "rec", (("call", "round", (("col", "z"),), (("nd", ("num", "2")),)),), (("k", ("call", "max", (("col", "w"),), ())),)),
]


def literal_cases(ctx):
    """Literals and names that a normalisation step could change on the way: integers beyond 2 ** 53, blanks inside
    strings, user functions named like built-ins."""
    for i, t in enumerate(LITERALS):
        for wrapper in ("probe", "I"):
            judge(ctx, {"tree": t, "layout_seed": i, "wrapper": wrapper, "other": None})


def _worker(ctx, arg):
    shard, n = arg
    if shard == 0:
        twin_pairs(ctx)
    if shard == 1:
        literal_cases(ctx)
    core.run_hypothesis(ctx, case_strategy(), judge, n, shard=shard)
    core.run_hypothesis(ctx, comparison_chain(), judge, max(20, n // 20), shard=shard, salt=7)


def run(ctx):
    per = 700 if ctx.tier == "quick" else 8000
    ctx.parallel(_worker, [(k, per) for k in range(core.NPROC)])
