"""C03 — the common-effects matrix has full column rank and spans exactly the model space.

Cases: a family of terms (each a tuple of atoms) in a drawn term order and factor order, with or
without intercept, on a replicated complete factorial with numeric columns in general position.
Oracle: linear algebra on the result — columns independent, and column space equal to the space
of the complete-indicator coding of every written term (vf.refcoding).
"""
import itertools
import random

import numpy as np
from hypothesis import strategies as st

from vf import core, frames
from vf import refcoding as rc

PROPERTY = "C03"
RULE = (
    "cases = (family of terms, term order, factor order, intercept spelling, level counts, column dtypes, "
    "replicates): (a) all non-empty families of subsets of four two-level factors, with and without intercept, "
    "orders drawn; (b) all families of <= 2 terms over f g h x in every term and factor order; (c) Hypothesis-drawn "
    "families of <= 5 terms of <= 3 atoms over plain / C / T / S coded factors, numeric variables, scale / center / "
    "bs / poly / pointwise calls; distinct = distinct (formula, levels, dtypes); non-trivial = some interaction lacks "
    "one of its margins, or a lower-order term is written after a higher-order one, or a term mixes numeric and "
    "categorical factors"
)
ASSUMPTIONS = [
    "data are replicated complete factorials with enough replicates per cell for the numeric functions used; "
    "numeric columns are Weyl sequences (general position)",
    "rank decisions are numerical: SVD of column-normalised matrices, tolerance 1e-8 relative to the largest singular value",
    "two terms with the same set of factors (a:b + b:a) are not generated",
    "bs / poly reference columns come from calling the transform classes directly (their contracts are C14)",
]

INTERCEPTS = ["implicit", "1+", "+1", "0+", "-1", "+0"]


def formula_of(case):
    items = [":".join(t) for t in case["terms"]]
    style = case["intercept"]
    body = " + ".join(items)
    if style == "implicit":
        rhs = body if items else "1"
    elif style == "1+":
        rhs = "1 + " + body if items else "1"
    elif style == "+1":
        rhs = body + " + 1" if items else "1"
    elif style == "0+":
        rhs = "0 + " + body
    elif style == "-1":
        rhs = body + " - 1"
    else:
        rhs = body + " + 0"
    if case.get("group_item"):
        # a group-specific item next to the common terms: the common-effects matrix is the one of the common terms alone
        rhs = rhs + " + " + case["group_item"] if not rhs.endswith((" - 1", " + 0")) else case["group_item"] + " + " + rhs
    return "y ~ " + rhs


def has_intercept(case):
    return case["intercept"] in ("implicit", "1+", "+1")


def frame_of(case):
    spec = frames.factorial_spec(case["levels"], case["reps"], case.get("seed", 0), case.get("catkinds"))
    if case.get("float_k"):
        # the integer-coded factor holds floats that are not exactly representable (0.1 * 3, 0.7000000000000001, ...)
        for c in spec["cols"]:
            if c["name"] == "k":
                c["kind"], c["values"] = "float", [v * 0.1 for v in c["values"]]
    return frames.build(spec)


def nontrivial(case):
    terms = [frozenset(rc.atom_base(a) for a in t) for t in case["terms"]]
    present = set(terms)
    for t in terms:
        if len(t) > 1:
            for k in range(1, len(t)):
                for sub in itertools.combinations(sorted(t), k):
                    if frozenset(sub) not in present:
                        return True
    degs = [len(t) for t in terms]
    if any(degs[i] > degs[i + 1] for i in range(len(degs) - 1)):
        return True
    for t in case["terms"]:
        kinds = {rc.is_cat(a) for a in t}
        if len(kinds) == 2:
            return True
    return False


def classes_of(case):
    c = ["terms:%d" % len(case["terms"]), "max_arity:%d" % max([len(t) for t in case["terms"]] + [0]),
         "intercept:" + case["intercept"]]
    for t in case["terms"]:
        for a in t:
            if a not in ("f", "g", "h", "s", "x", "z", "w"):
                c.append("atom:" + a.split("(")[0].replace("{w + 1}", "brace") + ("(ref)" if "'" in a else ""))
    for v, k in (case.get("catkinds") or {}).items():
        c.append("dtype:" + k)
    return sorted(set(c))


def judge(ctx, case):
    if ctx.skip():
        return None
    from formulae import design_matrices

    formula = formula_of(case)
    key = core.canon([formula, case["levels"], case.get("catkinds")])
    ctx.count(key, nontrivial(case), classes_of(case), sample=dict(case, formula=formula),
              stratum="terms:%d" % min(len(case["terms"]), 4))
    frame = frame_of(case)
    full = dict(case, formula=formula)
    try:
        with core.Guard():
            dm = design_matrices(formula, frame)
    except Exception as e:  # pylint: disable=broad-except
        ctx.fail("raises", full, f"{formula!r} raised {type(e).__name__}: {e}", core.exc_key(e))
        return
    x = dm.common.design_matrix if dm.common is not None else np.zeros((len(frame), 0))
    x = np.asarray(x, dtype=float)
    if x.ndim == 1:
        x = x[:, None]
    for t in case["terms"]:
        tc = rc.term_complete(tuple(t), frame)
        if rc.rank(tc) < tc.shape[1]:
            # premise of the property not met (a spline basis function vanishing on a cell, too few rows):
            # the generator is built to avoid this, whatever slips through is counted and not judged
            ctx.classes["unjudged:data_not_in_general_position"] += 1
            return
    r = rc.family_complete([tuple(t) for t in case["terms"]], has_intercept(case), frame)
    indep, same, rx, rr, rxr = rc.span_report(x, r)
    if rr != rc.model_dim([tuple(t) for t in case["terms"]], has_intercept(case), frame):
        # the reference coding itself does not reach the dimension the family has on data in general position
        ctx.classes["unjudged:data_not_in_general_position"] += 1
        return
    terms = list(dm.common.terms) if dm.common is not None else []
    if not indep:
        ctx.fail("rank", full, f"{formula!r}: {x.shape[1]} columns of rank {rx} (terms {terms}); model space has dimension {rr}", "deficient")
    elif not same:
        what = "too_small" if rx < rr else ("too_large" if rx > rr else "different_space")
        ctx.fail("span", full, f"{formula!r}: column space has dimension {rx}, model space {rr}, joint {rxr} (terms {terms})", what)


def replay(ctx, case):
    judge(ctx, case)


# ---- (a) all families over four two-level factors -------------------------------------------------
FOUR = ["f", "g", "h", "s"]
SUBSETS = [c for k in range(1, 5) for c in itertools.combinations(FOUR, k)]  # 15


def _family_case(mask, ic, seed):
    rnd = random.Random(seed * 1000003 + mask * 2 + ic)
    terms = []
    for i, sub in enumerate(SUBSETS):
        if mask >> i & 1:
            t = list(sub)
            rnd.shuffle(t)
            terms.append(t)
    rnd.shuffle(terms)
    style = rnd.choice(["implicit", "1+", "+1"]) if ic else rnd.choice(["0+", "-1", "+0"])
    kinds = {v: rnd.choice(["str", "str", "cat", "ordcat"]) for v in FOUR}
    return {"levels": {v: 2 for v in FOUR}, "reps": 2, "seed": 0, "catkinds": kinds, "intercept": style, "terms": terms}


def _fam_worker(ctx, arg):
    masks = arg
    for mask in masks:
        for ic in (0, 1):
            judge(ctx, _family_case(mask, ic, ctx.seed))


# ---- (b) all small families in every order ----------------------------------------------------------
def _small_cases():
    vars_ = ["f", "g", "h", "x"]
    allterms = [p for k in range(1, 4) for c in itertools.combinations(vars_, k) for p in itertools.permutations(c)]
    for k in (1, 2):
        for ts in itertools.permutations(allterms, k):
            if len(set(frozenset(t) for t in ts)) < len(ts):
                continue
            for style in ("implicit", "0+"):
                yield {"levels": {"f": 2, "g": 3, "h": 2}, "reps": 3, "seed": 1, "catkinds": {}, "intercept": style,
                       "terms": [list(t) for t in ts]}


def _numeric_order_cases():
    """Interactions of a factor with two numeric variables, the numeric part spelled in every order, with and without
    the numeric-only term (itself in either order)."""
    f_terms = [list(p) for p in itertools.permutations(["f", "x", "z"])]
    g_terms = [None] + [list(p) for p in itertools.permutations(["g", "x", "z"])]
    n_terms = [None, ["x", "z"], ["z", "x"]]
    for ft in f_terms:
        for gt in g_terms:
            for nt in n_terms:
                terms = [t for t in (ft, gt, nt) if t is not None]
                for order in set(itertools.permutations(range(len(terms)))):
                    for style in ("implicit", "0+"):
                        yield {"levels": {"f": 2, "g": 3}, "reps": 5, "seed": 2, "catkinds": {}, "intercept": style,
                               "terms": [terms[i] for i in order]}


def _multicolumn_cases():
    """Two numeric atoms of several columns each in one interaction, next to each other and apart, with and without a
    factor, in every order of the factors (equal and unequal numbers of columns)."""
    for a, b in (("poly(x, 2)", "poly(z, 2)"), ("poly(x, 2)", "bs(z, df=3)"), ("bs(x, df=4)", "poly(z, 3)"), ("poly(x, 2)", "poly(z, 3)")):
        reps = 2 * (1 + rc.NUM_WIDTH[a]) * (1 + rc.NUM_WIDTH[b])
        for factors in ([a, b], [a, b, "f"]):
            for order in itertools.permutations(factors):
                for style in ("implicit", "0+"):
                    yield {"levels": {"f": 2}, "reps": reps, "seed": 4, "catkinds": {}, "intercept": style, "terms": [list(order)]}
                yield {"levels": {"f": 2}, "reps": reps, "seed": 4, "catkinds": {}, "intercept": "implicit", "terms": [[a], [b], list(order)]}


def _small_worker(ctx, arg):
    shard, n = arg
    for i, case in enumerate(itertools.chain(_small_cases(), _numeric_order_cases(), _multicolumn_cases())):
        if i % n == shard:
            judge(ctx, case)


# ---- (c) random mixed families ------------------------------------------------------------------------
ATOM_CHOICES = {
    "f": ["f", "f", "C(f)", "T(f)", "S(f)", "T(f, 'a')", "C(f, Treatment('a'))"],
    "g": ["g", "g", "S(g)", "T(g)", "C(g, Treatment)", "S(g, 'g3')", "T(g, 'g1')"],
    "h": ["h", "h", "C(h, Sum)", "T(h)", "S(h)", "C(h, Sum('lo'))", "T(h, 'mid')"],
    "k": ["C(k)", "C(k, Sum)"],
    "x": ["x", "x", "scale(x)", "center(x)", "poly(x, 2)", "np.exp(x)", "bs(x, df=4)"],
    "z": ["z", "z", "center(z)", "scale(z)", "bs(z, df=3)", "I(z ** 2)", "poly(z, 3)"],
    "w": ["w", "standardize(w)", "{w + 1}"],
}


@st.composite
def mixed_case(draw, max_terms):
    bases = draw(st.lists(st.sampled_from(["f", "g", "h", "k", "x", "z", "w"]), min_size=1, max_size=5, unique=True))
    atom = {b: draw(st.sampled_from(ATOM_CHOICES[b])) for b in bases}
    nterms = draw(st.integers(1, max_terms))
    terms, seen = [], set()
    for _ in range(nterms):
        sub = draw(st.lists(st.sampled_from(bases), min_size=1, max_size=min(3, len(bases)), unique=True))
        key = frozenset(sub)
        if key in seen:
            continue
        seen.add(key)
        terms.append([atom[b] for b in sub])
    used = sorted({b for t in terms for b in [rc.atom_base(a) for a in t]})
    cats = [b for b in used if b in ("f", "g", "h", "k")]
    levels = {b: draw(st.integers(2, 4 if len(cats) <= 2 else 3)) for b in cats}
    kinds = {b: draw(st.sampled_from(["str", "str", "cat", "ordcat"])) for b in cats if b != "k"}
    need = 1
    for b in used:
        if b in ("x", "z", "w"):
            need *= 1 + rc.NUM_WIDTH.get(atom[b], 1)
    if any(atom[b].startswith("bs(") for b in used):
        need *= 3  # B-spline basis functions have local support: more rows per cell
    reps = max(2, need) + draw(st.integers(0, 1))
    if not levels:
        levels = {"f": 2}
        reps = max(reps, 6)
    style = draw(st.sampled_from(INTERCEPTS))
    case = {"levels": levels, "reps": reps, "seed": draw(st.integers(0, 20)), "catkinds": kinds, "intercept": style, "terms": terms}
    extra = draw(st.sampled_from(["none", "none", "none", "group_item", "group_item", "second_atom", "float_k"]))
    gfac = sorted(b for b in levels if b != "k")
    if extra == "group_item" and gfac:
        case["group_item"] = draw(st.sampled_from(["(1 | %s)", "(x | %s)", "(0 + x | %s)"])) % draw(st.sampled_from(gfac))
    elif extra == "second_atom":
        # the same numeric variable through another (linearly independent) atom, in a term over the same variables
        swap = {"x": "np.exp(x)", "np.exp(x)": "x", "z": "I(z ** 2)", "I(z ** 2)": "z"}
        cand = [t for t in terms if len(t) >= 2 and any(a in swap for a in t) and any(rc.is_cat(a) for a in t)]
        if cand:
            t = draw(st.sampled_from(cand))
            case["terms"] = terms + [[swap.get(a, a) for a in t]]
            case["reps"] = reps * 2
    elif extra == "float_k" and "k" in levels:
        case["float_k"] = True
    return case


def _mixed_worker(ctx, arg):
    shard, n, max_terms = arg
    core.run_hypothesis(ctx, mixed_case(max_terms), judge, n, shard=shard)


def run(ctx):
    quick = ctx.tier == "quick"
    ns = core.NPROC
    masks = list(range(1, 2 ** 15))
    if quick:
        rnd = random.Random(ctx.seed)
        offset = rnd.randrange(16)
        masks = masks[offset::16]
        ctx.exhaustive["families over four two-level factors"] = {"complete": False, "fraction": "1/16 (every 16th family, offset from the seed)"}
    else:
        ctx.exhaustive["families over four two-level factors (32767 x intercept)"] = {"complete": True}
    nchunk = ns * 4
    ctx.parallel(_fam_worker, [masks[k::nchunk] for k in range(nchunk)])
    ctx.parallel(_small_worker, [(k, ns) for k in range(ns)])
    ctx.exhaustive["families of <= 2 terms over f g h x, every term and factor order"] = {"complete": True}
    ctx.exhaustive["f:x:z (+ g:x:z) (+ x:z) with the numeric part spelled in every order, every term order"] = {"complete": True}
    per = 200 if quick else 2500
    ctx.parallel(_mixed_worker, [(k, per, 3 if (quick or k % 2) else 5) for k in range(ns)])
