"""C07 — designs are isolated: no state leaks across evaluations, designs or calls (histories).

Histories of build / evaluate-common / evaluate-group / set-config / model_description /
rebuild operations over a pool of formulas and frames are run against the library in one process;
every operation's result is compared with the same operation executed in a fresh process-state
(vf.fresh), and invariants on live designs, earlier results, the caller's frames and namespace, the
configuration and the transform registry are checked after every step.
"""
import copy
import itertools
import warnings

import numpy as np
from hypothesis import strategies as st
from hypothesis.stateful import RuleBasedStateMachine, invariant, precondition, rule

from vf import core, frames, fresh, fresh_tasks

PROPERTY = "C07"
RULE = (
    "cases = histories (operation sequences): build(formula, frame), evaluate-common(design, frame), "
    "evaluate-group(design, frame), set-config(mode), model_description(formula), rebuild(design) over a pool of 15 "
    "formulas x 4 frames (one training frame has a column of mean exactly 0, one a missing value and a formula uses every column of it; one with unseen levels so that the configuration matters, one with the shape of the training frame; one formula takes a function from extra_namespace and all builds share one captured Environment); all histories of "
    "length <= 3 over a reduced pool are enumerated, longer ones (up to 30 steps) come from a Hypothesis rule-based "
    "state machine; distinct = distinct history; non-trivial = some design is evaluated at least twice with different "
    "frames, or evaluated after another design using the same transform was built, or after a configuration change"
)
ASSUMPTIONS = [
    "fresh process-state = a fork-server child with formulae, numpy and pandas imported and nothing else done",
    "results are compared exactly (same interpreter, same numpy: the operations are deterministic)",
]

FORMULAS = [
    "y ~ x + f",
    "y ~ scale(x) + center(z):f",
    "y ~ 0 + bs(x, df=4) + C(k)",
    "y ~ poly(z, 2) + f:g + (1 | g)",
    "y ~ scale(x) + (scale(x) | g) + (0 + f | h)",
    "y ~ S(f) + T(g, 'g1'):x",
    "np.abs(y) ~ standardize(z) + (z | g:f)",
    "y ~ f*g + binary(h, 'lo') + I(x * z)",
    "y ~ ext(x) + f",  # `ext` comes from extra_namespace; successive builds pass different functions under that name
    "y ~ 0 + S(f) + C(g, Sum):x",  # full-rank and reduced sum codings
    "y ~ 0 + T(g, 'g1') + poly(z, 2)",
    "y ~ x + z + w + f + g + h + C(k)",  # uses every column of the frames (one of which has a missing value in w)
    "y ~ bs(x, knots=kn) + f",  # `kn` is a numpy array of the caller's namespace, not in increasing order
    "y ~ C(g, enc) + C(f, enc)",  # `enc` is one encoding object of the caller's namespace, used for two factors and by every design
    "y ~ x + f:g:h",  # the library adds lower-order terms on its own: which ones, and in which order, must not vary
]
USES_EXT = {8}
MODES = ["error", "warning", "silent"]


def make_frames():
    a = frames.factorial_spec({"f": 2, "g": 3, "h": 2, "k": 2}, 1, seed=3, catkinds={"f": "str", "g": "cat", "h": "ordcat"})
    n = frames.nrows(a)
    for c in a["cols"]:
        if c["name"] == "z":  # the mean of z on the first training frame is exactly 0.0 (x stays in general position)
            c["values"] = [((i * 7) % n - (n - 1) / 2.0) * 0.25 for i in range(n)]
    b = frames.take(a, [(i * 5 + 2) % n for i in range(10)])
    for c in b["cols"]:
        if c["kind"] == "float":
            c["values"] = [round(v * 1.7 - 0.3, 6) for v in c["values"]]
    for c in b["cols"]:
        if c["name"] == "w":  # a missing value in a column only the last formula uses
            c["values"] = list(c["values"])
            c["values"][3] = None
    c_ = frames.take(a, [1, 4, 4, 7, 0, 9])
    # unseen levels relative to the training frames: f gets 'zz', g a new group
    for col in c_["cols"]:
        if col["name"] == "f":
            col["values"] = list(col["values"])
            col["values"][2] = "zz"
        if col["name"] == "g":
            col["kind"], col["values"] = "str", list(col["values"])
            col["values"][4] = "gNEW"
            col.pop("categories", None)
            col.pop("ordered", None)
    # same shape as the first frame, other rows and values (an evaluation result that fits the training matrix)
    d_ = frames.take(a, [(i * 7 + 3) % n for i in range(n)])
    for col in d_["cols"]:
        if col["kind"] == "float":
            col["values"] = [round(v * 0.8 + 0.1, 6) for v in col["values"]]
    return [a, b, c_, d_]


FRAMES = make_frames()


class History:
    """Runs one history against the library, checks the invariants, collects (task, observed) pairs."""

    def __init__(self, ctx):
        from formulae import config
        from formulae.transforms import TRANSFORMS

        self.ctx = ctx
        self.ops = []
        self.designs = []  # (formula index, frame index, dm, snapshot)
        self.results = []  # (array, copy)
        self.pairs = []
        self.failures = []
        self.mode = "error"
        config["EVAL_UNSEEN_CATEGORIES"] = "error"
        self.frames = [frames.build(s) for s in FRAMES]
        self.pristine = [f.copy(deep=True) for f in self.frames]
        from formulae.environment import Environment

        self.env = Environment.capture(0)  # one captured environment, reused by every build of this history
        self.builds = 0
        from formulae.categorical import Sum

        self.namespaces = {v: {"np": np, "ext": fresh_tasks.EXT[v], "kn": np.array(fresh_tasks.KN), "enc": Sum()} for v in ("double", "triple")}
        self.enc_state = {v: dict(vars(d["enc"])) for v, d in self.namespaces.items()}
        self.namespace = self.namespaces["double"]
        self.ns_ids = {v: {k: id(o) for k, o in d.items()} for v, d in self.namespaces.items()}
        self.variants = []
        self.registry = {k: v for k, v in TRANSFORMS.items()}
        self.flags = set()

    # -- operations -------------------------------------------------------------------------------------
    def build(self, fi, di):
        from formulae import design_matrices

        self.ops.append(["build", fi, di])
        if any(FORMULAS[fi].split("~")[1].count(t) and FORMULAS[d[0]].split("~")[1].count(t) for d in self.designs for t in ("scale(", "center(", "bs(", "poly(")):
            self.flags.add("shared_transform_kind")
        variant = ("double", "triple")[self.builds % 2]
        self.builds += 1
        res = fresh_tasks.guarded(lambda: self._build(design_matrices, fi, di, variant))
        ext = variant if fi in USES_EXT else None
        self.pairs.append((("build", fi, di, ext), {"op": "build", "formula": FORMULAS[fi], "train": FRAMES[di], "extra": ext}, res, len(self.ops) - 1))

    def _build(self, design_matrices, fi, di, variant):
        with core.Guard():
            dm = design_matrices(FORMULAS[fi], self.frames[di], env=self.env, extra_namespace=self.namespaces[variant])
        self.designs.append((fi, di, dm, self._snapshot(dm)))
        self.variants.append(variant if fi in USES_EXT else None)
        return fresh_tasks.observe_design(dm)

    def rebuild(self, k):
        fi, di = self.designs[k][0], self.designs[k][1]
        self.build(fi, di)
        self.ops[-1] = ["rebuild", k]

    def evaluate(self, part, k, di):
        fi, ti, dm, _ = self.designs[k]
        self.ops.append(["eval_" + part, k, di])
        prior = [o for o in self.ops[:-1] if o[0].startswith("eval_") and o[1] == k]
        if any(o[2] != di for o in prior):
            self.flags.add("evaluated_twice_with_different_frames")
        if any(o[0] == "set_config" for o in self.ops):
            self.flags.add("after_config_change")
        if any(o[0] in ("build", "rebuild") for o in self.ops[self._index_of_build(k) + 1:]):
            self.flags.add("after_another_build")
        m = dm.common if part == "common" else dm.group

        def run():
            if m is None:
                return None
            with core.Guard():
                out = m.evaluate_new_data(self.frames[di])
            arr = np.asarray(out.design_matrix)
            self.results.append((arr, arr.copy(), out, self._layout(out)))
            try:  # users print what they get; printing is an observation, not an operation
                str(out), repr(out)
            except Exception:  # pylint: disable=broad-except
                pass
            return fresh_tasks.observe_matrix(out)

        res = fresh_tasks.guarded(run)
        ext = self.variants[k]
        self.pairs.append((("eval_" + part, fi, ti, self.mode, di, ext),
                           {"op": "eval_" + part, "formula": FORMULAS[fi], "train": FRAMES[ti], "mode": self.mode, "frame": FRAMES[di], "extra": ext}, res, len(self.ops) - 1))

    def _index_of_build(self, k):
        seen = -1
        for i, o in enumerate(self.ops):
            if o[0] in ("build", "rebuild"):
                seen += 1
                if seen == k:
                    return i
        return len(self.ops)

    def set_config(self, mode):
        from formulae import config

        self.ops.append(["set_config", mode])
        config["EVAL_UNSEEN_CATEGORIES"] = mode
        self.mode = mode

    def describe(self, fi):
        from formulae import model_description
        from vf.observe import describe_model

        self.ops.append(["describe", fi])
        res = fresh_tasks.guarded(lambda: [list(map(list, x)) if isinstance(x, list) else x for x in describe_model(model_description(FORMULAS[fi]))])
        self.pairs.append((("describe", fi), {"op": "describe", "formula": FORMULAS[fi]}, res, len(self.ops) - 1))

    # -- invariants --------------------------------------------------------------------------------------
    @staticmethod
    def _layout(m):
        """Slices and per-term views of a matrix object (what indexing by term name returns)."""
        if m is None or not hasattr(m, "slices"):
            return None
        out = []
        for name, sl in m.slices.items():
            try:
                view = fresh_tasks.nan_safe(np.array(m[name], copy=True).tolist())
            except Exception as e:  # pylint: disable=broad-except
                view = type(e).__name__
            # what the term object itself holds (its own copy of the columns, and of its effect side for group terms)
            held = []
            term = m.terms.get(name) if hasattr(m, "terms") else None
            for obj in (term, getattr(term, "expr", None)):
                d_ = getattr(obj, "data", None)
                if isinstance(d_, np.ndarray):
                    held.append(fresh_tasks.nan_safe(np.array(d_, dtype=float, copy=True).tolist()))
            # the group names a group-specific term goes by (printing a result must not add to them)
            groups = getattr(term, "groups", None)
            out.append((name, sl.start, sl.stop, view, held, None if groups is None else [str(g_) for g_ in groups]))
        try:
            out.append(("__str__", str(m)))
        except Exception as e:  # pylint: disable=broad-except
            out.append(("__str__", type(e).__name__))
        return out

    @classmethod
    def _snapshot(cls, dm):
        return [None if m is None else np.array(m.design_matrix, copy=True) for m in (dm.response, dm.common, dm.group)] + \
               [cls._layout(dm.common), cls._layout(dm.group)]

    def fail(self, clause, detail, key):
        self.failures.append((clause, detail, key))

    def check_invariants(self):
        from formulae import config
        from formulae.transforms import TRANSFORMS

        step = len(self.ops) - 1
        for k, (fi, di, dm, snap) in enumerate(self.designs):
            for name, m, s in zip(("response", "common", "group"), (dm.response, dm.common, dm.group), snap):
                if m is not None and not np.array_equal(np.asarray(m.design_matrix), s, equal_nan=True):
                    self.fail("training_matrix", f"after step {step} {self.ops[step]}: the {name} matrix of design {k} ({FORMULAS[fi]!r}) changed", name)
                    self.designs[k] = (fi, di, dm, self._snapshot(dm))
            if [self._layout(dm.common), self._layout(dm.group)] != snap[3:]:
                self.fail("training_matrix", f"after step {step} {self.ops[step]}: slices / per-term views of design {k} ({FORMULAS[fi]!r}) changed", "layout")
                self.designs[k] = (fi, di, dm, self._snapshot(dm))
        for i, (arr, cp, obj, layout) in enumerate(self.results):
            if not np.array_equal(arr, cp, equal_nan=True):
                self.fail("earlier_result", f"after step {step} {self.ops[step]}: result array #{i} returned earlier changed", "mutated")
                self.results[i] = (arr, arr.copy(), obj, layout)
            elif self._layout(obj) != layout:
                self.fail("earlier_result", f"after step {step} {self.ops[step]}: slices / per-term views of result #{i} returned earlier changed", "layout")
                self.results[i] = (arr, cp, obj, self._layout(obj))
        for i, (f, p) in enumerate(zip(self.frames, self.pristine)):
            same = list(f.columns) == list(p.columns) and f.index.equals(p.index) and f.dtypes.equals(p.dtypes) and f.attrs == p.attrs and f.equals(p)
            if not same:
                self.fail("caller_frame", f"after step {step} {self.ops[step]}: the caller's frame {i} was modified", "frame")
                self.frames[i] = p.copy(deep=True)
        if {v: {k: id(o) for k, o in d.items()} for v, d in self.namespaces.items()} != self.ns_ids:
            self.fail("caller_namespace", f"after step {step} {self.ops[step]}: a namespace dict passed by the caller changed", "namespace")
            self.ns_ids = {v: {k: id(o) for k, o in d.items()} for v, d in self.namespaces.items()}
        for v, d in self.namespaces.items():
            if d["kn"].tolist() != fresh_tasks.KN:
                self.fail("caller_namespace", f"after step {step} {self.ops[step]}: an array of the caller's namespace was modified in place "
                          f"({d['kn'].tolist()}, was {fresh_tasks.KN})", "namespace_value")
                d["kn"][:] = fresh_tasks.KN
            if dict(vars(d["enc"])) != self.enc_state[v]:
                self.fail("caller_namespace", f"after step {step} {self.ops[step]}: the encoding object of the caller's namespace changed "
                          f"({vars(d['enc'])}, was {self.enc_state[v]})", "namespace_object")
                for k_ in list(vars(d["enc"])):
                    delattr(d["enc"], k_)
                vars(d["enc"]).update(self.enc_state[v])
        if config["EVAL_UNSEEN_CATEGORIES"] != self.mode:
            self.fail("config", f"after step {step} {self.ops[step]}: configuration is {config['EVAL_UNSEEN_CATEGORIES']!r}, set to {self.mode!r}", "config")
            config["EVAL_UNSEEN_CATEGORIES"] = self.mode
        if set(TRANSFORMS) != set(self.registry) or any(TRANSFORMS[k] is not v for k, v in self.registry.items()):
            self.fail("registry", f"after step {step} {self.ops[step]}: the transform registry changed", "registry")
            self.registry = {k: v for k, v in TRANSFORMS.items()}

    # -- verdict -------------------------------------------------------------------------------------------
    def finish(self):
        from formulae import config

        config["EVAL_UNSEEN_CATEGORIES"] = "error"
        ctx = self.ctx
        case = {"ops": self.ops}
        nt = bool(self.flags & {"evaluated_twice_with_different_frames", "after_config_change", "after_another_build", "shared_transform_kind"}) and \
            any(o[0].startswith("eval_") for o in self.ops)
        ctx.count(core.canon(self.ops), nt, ["length:%d" % min(len(self.ops), 10)] + sorted(self.flags), sample=case, stratum="length:%s" % ("<=3" if len(self.ops) <= 3 else ">3"))
        for clause, detail, key in self.failures:
            ctx.fail(clause, case, detail, key)
        expected = fresh.run_tasks([(core.canon(k), p) for k, p, _, _ in self.pairs])
        for k, _, got, step in self.pairs:
            want = expected[core.canon(k)]
            if got != want:
                what = "exception" if ("exc" in got) != ("exc" in want) else ("warnings" if got.get("warned") != want.get("warned") else "values")
                ctx.fail("fresh_state", case, f"step {step} {self.ops[step]} gives another result than the same operation in a fresh process-state "
                         f"({what}: {str(got)[:120]} vs {str(want)[:120]})", self.ops[step][0] + ":" + what)


def run_ops(ctx, ops):
    h = History(ctx)
    for op in ops:
        kind = op[0]
        if kind == "build":
            h.build(op[1], op[2])
        elif kind == "rebuild":
            if op[1] < len(h.designs):
                h.rebuild(op[1])
            else:
                continue
        elif kind in ("eval_common", "eval_group"):
            if op[1] < len(h.designs):
                h.evaluate(kind[5:], op[1], op[2])
            else:
                continue
        elif kind == "set_config":
            h.set_config(op[1])
        elif kind == "describe":
            h.describe(op[1])
        h.check_invariants()
    h.finish()


def replay(ctx, case):
    if case.get("kind") == "determinism":
        determinism(ctx, [case["task"]], seeds=(case["hashseed"],))
    elif case.get("kind") == "caller_scenario":
        caller_scenarios(ctx)
    else:
        run_ops(ctx, case["ops"])


# ---- the caller goes on working between two builds ---------------------------------------------------------------
def caller_scenarios(ctx):
    """A caller builds a design whose formula uses one of its variables, changes that variable, and evaluates the design
    later.  Whether ANOTHER design was built in between (same function, same or other formula) must not matter."""
    from formulae import design_matrices

    frame = frames.build(FRAMES[0])
    new = frames.build(FRAMES[3])

    def scenario(other, where):
        mult = 2.0
        first = design_matrices("y ~ 0 + I(x * mult) + f", frame)
        mult = 3.0  # the caller re-uses the name
        if other is not None and where == "same_function":
            design_matrices(other, frame)
        elif other is not None:
            (lambda: design_matrices(other, frame))()
        assert mult == 3.0
        return np.asarray(first.common.evaluate_new_data(new).design_matrix, dtype=float)

    # a call that fails half-way leaves no trace: evaluating a frame that lacks the grouping column raises, and the
    # configuration, the design and later evaluations are as before
    from formulae import config

    case = {"kind": "caller_scenario", "other": "failed evaluation", "where": "exception_path"}
    ctx.count(core.canon(case), True, ["caller_scenario"], stratum="caller_scenario")
    unseen = frames.build(FRAMES[2])
    dmx = design_matrices("y ~ x + f + (x | g)", frame)
    config["EVAL_UNSEEN_CATEGORIES"] = "error"
    before = np.array(dmx.group.design_matrix, copy=True)
    for part, bad in (("group", new.drop(columns=["g"])), ("common", new.drop(columns=["f"])), ("group", new.drop(columns=["x"]))):
        try:
            with core.Guard():
                getattr(dmx, part).evaluate_new_data(bad)
        except Exception:  # pylint: disable=broad-except
            pass
        if config["EVAL_UNSEEN_CATEGORIES"] != "error":
            ctx.fail("config", case, f"a failed {part}.evaluate_new_data (frame without a column) left the configuration at "
                     f"{config['EVAL_UNSEEN_CATEGORIES']!r}", "after_exception")
            config["EVAL_UNSEEN_CATEGORIES"] = "error"
        try:
            with core.Guard():
                dmx.common.evaluate_new_data(unseen)
            ctx.fail("other_build", case, f"after a failed {part}.evaluate_new_data, unseen levels are accepted in 'error' mode", "after_exception")
        except Exception:  # pylint: disable=broad-except
            pass
    if not np.array_equal(before, np.asarray(dmx.group.design_matrix)):
        ctx.fail("training_matrix", case, "a failed evaluate_new_data changed the training group matrix", "after_exception")

    # a caller at module level (its locals are its globals): nothing is written into them
    case = {"kind": "caller_scenario", "other": "y ~ scale(x) + np.log(p2)", "where": "module_level"}
    ctx.count(core.canon(case), True, ["caller_scenario"], stratum="caller_scenario")
    for formula in ("y ~ scale(x) + f", "y ~ I(x * 2) + (1 | g)", "y ~ bs(x, df=4)"):
        g_ = {"design_matrices": design_matrices, "frame": frame, "formula": formula}
        keys = set(g_)
        try:
            with core.Guard():
                exec("dm = design_matrices(formula, frame)\nm2 = dm.common.evaluate_new_data(frame)", g_)  # pylint: disable=exec-used
        except Exception as e:  # pylint: disable=broad-except
            ctx.fail("other_build", case, f"{formula!r} at module level raised {type(e).__name__}: {e}", core.exc_key(e))
            continue
        extra_keys = set(g_) - keys - {"dm", "m2", "__builtins__"}
        if extra_keys:
            ctx.fail("caller_namespace", case, f"{formula!r} built at module level left new names in the caller's globals: {sorted(extra_keys)}", "module_level")

    base = scenario(None, None)
    for other in ("y ~ x", "y ~ 0 + I(x * mult) + f", "y ~ scale(z) + (1 | g)"):
        for where in ("same_function", "nested_function"):
            if where == "nested_function" and "mult" in other:
                continue  # `mult` is not a variable of the nested function
            case = {"kind": "caller_scenario", "other": other, "where": where}
            ctx.count(core.canon(case), True, ["caller_scenario"], stratum="caller_scenario")
            try:
                with core.Guard():
                    got = scenario(other, where)
            except Exception as e:  # pylint: disable=broad-except
                ctx.fail("other_build", case, f"building {other!r} in between raised {type(e).__name__}: {e}", core.exc_key(e))
                continue
            if got.shape != base.shape or not np.array_equal(got, base, equal_nan=True):
                ctx.fail("other_build", case, f"'y ~ 0 + I(x * mult) + f' evaluated on new data gives another matrix when {other!r} was built "
                         f"in between ({where}): first row {got[0].tolist()} vs {base[0].tolist()}", where)


# ---- the same operation in brand-new interpreters with other string hash seeds ----------------------------------
def determinism(ctx, tasks=None, seeds=(1, 2, 11)):
    """design_matrices and model_description are deterministic: a build or a description gives the same answer in every
    new interpreter, whatever seed it hashes strings with (set and dict-of-set iteration order must not show)."""
    import json
    import os
    import subprocess
    import sys

    if tasks is None:
        tasks = [{"op": "describe", "formula": f} for f in FORMULAS]
        tasks += [{"op": "build", "formula": f, "train": FRAMES[ti], "extra": ("double" if fi in USES_EXT else None)}
                  for fi, f in enumerate(FORMULAS) for ti in (0, 1)]
    results = {}
    procs = []
    for hs in (0,) + tuple(seeds):
        env = dict(os.environ, PYTHONHASHSEED=str(hs))
        procs.append((hs, subprocess.Popen([sys.executable, "-W", "ignore", "-m", "vf.fresh_tasks"], stdin=subprocess.PIPE, stdout=subprocess.PIPE,
                                           stderr=subprocess.DEVNULL, env=env, text=True)))
    payload = json.dumps(tasks)
    for hs, p in procs:
        try:
            out, _ = p.communicate(payload, timeout=600)
            results[hs] = json.loads(out)
        except Exception as e:  # pylint: disable=broad-except
            p.kill()
            raise core.HarnessError(f"fresh interpreter with PYTHONHASHSEED={hs} failed: {type(e).__name__}: {e}") from e
    for i, task in enumerate(tasks):
        for hs in seeds:
            case = {"kind": "determinism", "task": task, "hashseed": hs}
            ctx.count(core.canon(case), True, ["determinism:" + task["op"]], stratum="determinism")
            if results[hs][i] != results[0][i]:
                ctx.fail("determinism", case, f"{task['op']} of {task['formula']!r} gives another result in a new interpreter with "
                         f"PYTHONHASHSEED={hs} than with PYTHONHASHSEED=0: {str(results[hs][i])[:150]} vs {str(results[0][i])[:150]}", task["op"])


# ---- exhaustive short histories -----------------------------------------------------------------------
SMALL_F = [1, 4]
SMALL_D = [0, 2]


def small_alphabet():
    ops = [["build", f, d] for f in SMALL_F for d in SMALL_D]
    ops += [["eval_common", "last", d] for d in SMALL_D] + [["eval_group", "last", d] for d in SMALL_D]
    ops += [["eval_common", 0, d] for d in SMALL_D]
    ops += [["set_config", m] for m in MODES]
    return ops


def _exh_worker(ctx, arg):
    shard, n = arg
    alpha = small_alphabet()
    i = 0
    for length in (1, 2, 3):
        for seq in itertools.product(alpha, repeat=length):
            i += 1
            if i % n != shard:
                continue
            if ctx.skip():
                return
            ops, nd = [], 0
            for o in seq:
                o = list(o)
                if o[0].startswith("eval_"):
                    if nd == 0:
                        ops = None
                        break
                    if o[1] == "last":
                        o[1] = nd - 1
                if o[0] == "build":
                    nd += 1
                ops.append(o)
            if ops:
                run_ops(ctx, ops)
    fresh.shutdown()


# ---- all "evaluate twice" histories ------------------------------------------------------------------
def _pairs_worker(ctx, arg):
    """build(f, d0); set-config(m1); evaluate(part1, frame1); set-config(m2); evaluate(part2, frame2) for every
    formula, every pair of modes, every pair of frames and parts: the second result must not depend on the first."""
    shard, n, quick = arg
    frames_ = list(range(len(FRAMES)))
    parts = (("common", "common"), ("group", "group")) if quick else (("common", "common"), ("group", "group"), ("common", "group"), ("group", "common"))
    i = 0
    for fi in range(len(FORMULAS)):
        for m1, m2 in itertools.product(MODES, repeat=2):
            for d1, d2 in itertools.product(frames_, repeat=2):
                if quick and 2 not in (d1, d2) and (m1, m2) != ("error", "error"):
                    continue  # the mode only matters for the frame with unseen levels
                for p1, p2 in parts:
                    i += 1
                    if i % n != shard:
                        continue
                    if ctx.skip():
                        return
                    if fi in USES_EXT:
                        # two builds of the formula that takes a function from extra_namespace, then evaluate both
                        run_ops(ctx, [["build", fi, 0], ["build", fi, 0], ["set_config", m1], ["eval_" + p1, 0, d1], ["set_config", m2], ["eval_" + p2, 1, d2]])
                    else:
                        run_ops(ctx, [["build", fi, 0], ["set_config", m1], ["eval_" + p1, 0, d1], ["set_config", m2], ["eval_" + p2, 0, d2]])
    fresh.shutdown()


# ---- build A, build B, look at both ------------------------------------------------------------------------
def _build_pairs_worker(ctx, arg):
    """build(fa, d0); build(fb, d1); evaluate both on a third frame: building another design (same or another formula,
    same or other data) never changes an existing design or its later evaluations."""
    shard, n = arg
    i = 0
    for fa in range(len(FORMULAS)):
        for fb in range(len(FORMULAS)):
            for da, db in ((0, 0), (0, 1), (1, 0)):
                i += 1
                if i % n != shard:
                    continue
                if ctx.skip():
                    return
                run_ops(ctx, [["build", fa, da], ["build", fb, db], ["eval_common", 0, 3], ["eval_common", 1, 3], ["eval_group", 0, 1], ["rebuild", 0]])
    fresh.shutdown()


# ---- state machine ----------------------------------------------------------------------------------------
def make_machine(ctx):
    class Isolation(RuleBasedStateMachine):
        def __init__(self):
            super().__init__()
            self.h = History(ctx)

        @rule(fi=st.integers(0, len(FORMULAS) - 1), di=st.integers(0, 1))
        def build(self, fi, di):
            self.h.build(fi, di)

        @precondition(lambda self: len(self.h.designs) > 0)
        @rule(k=st.integers(0, 50), di=st.integers(0, 3), part=st.sampled_from(["common", "group"]))
        def evaluate(self, k, di, part):
            self.h.evaluate(part, k % len(self.h.designs), di)

        @rule(mode=st.sampled_from(MODES))
        def set_config(self, mode):
            self.h.set_config(mode)

        @rule(fi=st.integers(0, len(FORMULAS) - 1))
        def describe(self, fi):
            self.h.describe(fi)

        @precondition(lambda self: len(self.h.designs) > 0)
        @rule(k=st.integers(0, 50))
        def rebuild(self, k):
            self.h.rebuild(k % len(self.h.designs))

        @invariant()
        def isolated(self):
            if self.h.ops:
                self.h.check_invariants()

        def teardown(self):
            if self.h.ops and not ctx.skip():
                self.h.finish()

    return Isolation


def _machine_worker(ctx, arg):
    shard, n, steps = arg
    core.run_machine(ctx, make_machine(ctx), n, steps, shard=shard)
    fresh.shutdown()


def prefill():
    """Every oracle task of this check comes from a small universe: compute each once, in a pristine child, before the
    workers are forked (they inherit the cache)."""
    import os

    tasks = []
    for fi, f in enumerate(FORMULAS):
        tasks.append((core.canon(("describe", fi)), {"op": "describe", "formula": f}))
        for ext in (("double", "triple") if fi in USES_EXT else (None,)):
            for ti in (0, 1, 2):
                tasks.append((core.canon(("build", fi, ti, ext)), {"op": "build", "formula": f, "train": FRAMES[ti], "extra": ext}))
                for mode in MODES:
                    for di in range(len(FRAMES)):
                        for part in ("common", "group"):
                            tasks.append((core.canon(("eval_" + part, fi, ti, mode, di, ext)),
                                          {"op": "eval_" + part, "formula": f, "train": FRAMES[ti], "mode": mode, "frame": FRAMES[di], "extra": ext}))
    os.environ["VERIF_FRESH_PROCS"] = str(core.NPROC)
    fresh.run_tasks(tasks)
    fresh.shutdown()
    os.environ["VERIF_FRESH_PROCS"] = "2"
    return len(dict(tasks))


def run(ctx):
    quick = ctx.tier == "quick"
    ns = core.NPROC
    ctx.notes.append("fresh process-state results computed for %d distinct oracle tasks" % prefill())
    determinism(ctx)
    caller_scenarios(ctx)
    ctx.parallel(_exh_worker, [(k, ns) for k in range(ns)], nproc=ns)
    ctx.exhaustive["histories of length <= 3 over 2 formulas x 2 frames x 3 modes (14-operation alphabet)"] = {"complete": True}
    ns2 = core.NPROC
    ctx.parallel(_pairs_worker, [(k, ns2, quick) for k in range(ns2)], nproc=ns2)
    ctx.exhaustive["build; set-config; evaluate; set-config; evaluate over 8 formulas x 9 mode pairs x frame pairs x part pairs"
                   + (" (quick: same part twice; all mode pairs only where the frame with unseen levels takes part)" if quick else " (all part pairs)")] = {"complete": True}
    ctx.parallel(_build_pairs_worker, [(k, ns2) for k in range(ns2)], nproc=ns2)
    ctx.exhaustive["build A; build B; evaluate A; evaluate B; evaluate-group A; rebuild A over all ordered pairs of formulas x 3 frame pairs"] = {"complete": True}
    per = 50 if quick else 400
    ctx.parallel(_machine_worker, [(k, per, 30) for k in range(ns)], nproc=ns)
