"""What a fresh child executes for C07 (kept import-light: it is preloaded into the fork server)."""


def observe_matrix(m):
    import numpy as np

    if m is None:
        return None
    out = {"matrix": np.asarray(m.design_matrix, dtype=float).tolist(), "slices": [(k, v.start, v.stop) for k, v in m.slices.items()] if hasattr(m, "slices") else None}
    if hasattr(m, "factors_with_new_levels"):
        out["new"] = list(m.factors_with_new_levels)
    return out


def observe_design(dm):
    return {"response": None if dm.response is None else __import__("numpy").asarray(dm.response.design_matrix, dtype=float).tolist(),
            "common": observe_matrix(dm.common), "group": observe_matrix(dm.group),
            "labels": None if dm.common is None else [l for t in dm.common.terms.values() for l in t.labels]}


def nan_safe(o):
    """The same nested structure with every NaN replaced by the string 'nan', so that results compare with ==."""
    if isinstance(o, float):
        return "nan" if o != o else o
    if isinstance(o, (list, tuple)):
        return [nan_safe(x) for x in o]
    if isinstance(o, dict):
        return {k: nan_safe(v) for k, v in o.items()}
    return o


def guarded(fn):
    import warnings

    try:
        with warnings.catch_warnings(record=True) as w:
            warnings.simplefilter("always")
            out = fn()
        return {"ok": nan_safe(out), "warned": sorted({x.category.__name__ for x in w})}
    except Exception as e:  # pylint: disable=broad-except
        return {"exc": type(e).__name__}


def _double(x):
    return x * 2.0


def _triple(x):
    return x * 3.0


EXT = {"double": _double, "triple": _triple}
KN = [0.4, -0.3]  # knots handed to bs() through a name, as a numpy array that is not in increasing order


def execute(payload):
    """payload: {"op", "formula", "train", "mode", "frame"} with frames as vf.frames specs."""
    from formulae import config, design_matrices, model_description

    from vf import frames
    from vf.observe import describe_model

    op = payload["op"]
    if op == "describe":
        return guarded(lambda: [list(map(list, x)) if isinstance(x, list) else x for x in describe_model(model_description(payload["formula"]))])
    import numpy

    from formulae.categorical import Sum

    ns = {"np": numpy, "kn": numpy.array(KN), "enc": Sum()}
    if payload.get("extra"):
        ns["ext"] = EXT[payload["extra"]]
    config["EVAL_UNSEEN_CATEGORIES"] = payload.get("mode", "error")
    train = frames.build(payload["train"])
    if op == "build":
        return guarded(lambda: observe_design(design_matrices(payload["formula"], train, extra_namespace=ns)))
    try:
        dm = design_matrices(payload["formula"], train, extra_namespace=ns)
    except Exception as e:  # pylint: disable=broad-except
        return {"exc": "build:" + type(e).__name__}
    new = frames.build(payload["frame"])
    part = dm.common if op == "eval_common" else dm.group
    if part is None:
        return {"ok": None, "warned": []}
    return guarded(lambda: observe_matrix(part.evaluate_new_data(new)))


if __name__ == "__main__":
    # python -m vf.fresh_tasks < payloads.json > results.json : the tasks of this module in a brand-new interpreter
    # (used with several PYTHONHASHSEED values: a deterministic library gives the same answers under all of them)
    import json
    import sys
    import warnings

    warnings.simplefilter("ignore")
    import contextlib
    import io

    payloads = json.load(sys.stdin)
    out = []
    with contextlib.redirect_stdout(io.StringIO()):  # the library prints diagnostics; the answer goes to the real stdout
        for p_ in payloads:
            try:
                out.append(execute(p_))
            except Exception as e:  # pylint: disable=broad-except
                out.append({"exc": "task:" + type(e).__name__})
    json.dump(out, sys.stdout)
