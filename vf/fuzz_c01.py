"""Coverage-guided campaign for the character/token-level clause of C01 (atheris on libFuzzer).

Run as a subprocess by vf.checks.c01 in the thorough tier:
    python -m vf.fuzz_c01 <outfile> <seed> <runs> [corpus dir]
Bytes are decoded into a token string (one byte = one entry of a 64-entry table of lexemes, junk
characters and separators), the oracle of C01 (vf.checks.c01.judge) runs inside the target in collect
mode, and the context is dumped to <outfile> every 2000 executions and at the end (atexit does not
run under libFuzzer).
"""
import os
import pickle
import sys

import atheris

with atheris.instrument_imports(include=["formulae"]):
    import formulae  # noqa: F401  pylint: disable=unused-import

from vf import core  # noqa: E402
from vf.checks import c01  # noqa: E402

TABLE = ["y", "x", "g", "f", "z", "1", "0", "2", ".5", "1.5", "'a'", '"b"', "`q r`", "~", "|", "+", "-", "*", "/", ":", "**", "(", ")", ",", "=", "==",
         "!=", "<", "<=", ">", ">=", "[", "]", "{", "}", "np.log", "I", "C", "True", "None", " ", " ", "", "\t", "\n", "$", "'", '"', "`", "%", "!", ".",
         "//", "_", "a.b", "x1", "@", "#", "\\", "12", "scale", "center", "poly", "e"]
assert len(TABLE) == 64

OUT, SEED, RUNS = sys.argv[1], int(sys.argv[2]), int(sys.argv[3])
CTX = core.Ctx("C01", "thorough", SEED)
COUNT = [0]


def dump():
    tmp = OUT + ".tmp"
    with open(tmp, "wb") as fh:
        pickle.dump(CTX.export(), fh)
    os.replace(tmp, OUT)


def one_input(data):
    COUNT[0] += 1
    if data:
        s = "".join(TABLE[b & 63] + (" " if b & 64 else "") for b in data[:40])
        if s.strip():
            c01.judge(CTX, s, "fuzz")
    if COUNT[0] % 2000 == 0 or COUNT[0] >= RUNS:
        dump()


def main():
    core.quiet_formulae()
    argv = [sys.argv[0], f"-runs={RUNS}", f"-seed={SEED or 1}", "-max_len=40", "-verbosity=0", "-print_final_stats=0"] + sys.argv[4:]
    atheris.Setup(argv, one_input)
    atheris.Fuzz()


if __name__ == "__main__":
    main()
