"""Core of the verification framework: the per-run context (counters, buckets, samples),
sharded execution, the Hypothesis driver (collect-then-shrink) and the evidence writer.

A *case* is always a JSON-serialisable object: it is what gets counted, sampled, written to a
replay file and fed back to ``module.replay``.
"""
import collections
import hashlib
import heapq
import json
import logging
import multiprocessing
import os
import sys
import time
import traceback

HERE = os.path.dirname(os.path.dirname(os.path.abspath(__file__)))
NPROC = int(os.environ.get("VERIF_NPROC", "16"))


def canon(obj):
    return json.dumps(obj, sort_keys=True, default=str, ensure_ascii=False)


def digest(obj):
    s = obj if isinstance(obj, str) else canon(obj)
    return hashlib.blake2b(s.encode("utf8", "surrogatepass"), digest_size=8).digest()


class HarnessError(Exception):
    """Something is wrong with the harness (never a verdict about the property)."""


class Failure:
    __slots__ = ("clause", "key", "case", "detail")

    def __init__(self, clause, key, case, detail):
        self.clause, self.key, self.case, self.detail = clause, key, case, detail

    @property
    def bucket(self):
        return f"{self.clause}|{self.key}"

    def as_dict(self):
        return {"clause": self.clause, "key": self.key, "case": self.case, "detail": self.detail}


class Ctx:
    """Accumulates what a run (or a shard of it) covered and what it found."""

    MAX_SAMPLES = 24
    PER_STRATUM = 3
    KEEP_PER_BUCKET = 4

    def __init__(self, prop, tier, seed, known=None):
        self.prop, self.tier, self.seed = prop, tier, seed
        self.known = known or []  # active known findings: list of (id, clause, predicate)
        self.evaluations = 0
        self.nontrivial = set()
        self.nontrivial_enumerated = 0
        self.classes = collections.Counter()
        self.rejected = collections.Counter()
        self.excluded_known = collections.Counter()
        self.samples = {}  # stratum -> heap of (-rank, canon): evenly drawn sample of non-trivial cases
        self.buckets = {}  # bucket -> {"count": n, "cases": [Failure dicts, smallest first]}
        self.exhaustive = {}
        self.notes = []
        self.truncated = False
        self.deadline = None
        self._current = None  # failures of the case being judged (used by the hypothesis driver)

    # -- bookkeeping -------------------------------------------------------------------------
    def skip(self):
        """True when the library stopped returning in this process: judging further cases would only
        repeat the same 30 s wait; the run is marked truncated and the hang already is a recorded failure."""
        if hanging():
            self.truncated = True
            return True
        return self.out_of_time()

    def count(self, case, nontrivial, classes=(), n=1, sample=None, stratum="", distinct=False):
        """Register one judged case.  ``case`` identifies it (distinctness), ``sample`` is what is
        written out if the case is drawn as an evidence sample (defaults to the case itself)."""
        self.evaluations += n
        for c in classes:
            self.classes[c] += 1
        if nontrivial:
            d = digest(case)
            if distinct:
                # enumerated domains: the caller guarantees that every case is counted once, so a counter
                # replaces the set of digests (tens of millions of strings in the thorough tiers)
                self.nontrivial_enumerated += 1
                fresh = True
            else:
                fresh = d not in self.nontrivial
                if fresh:
                    self.nontrivial.add(d)
            if fresh:
                s = canon(case if sample is None else sample)
                rank = int.from_bytes(d, "big")
                heap = self.samples.setdefault(stratum, [])
                if len(heap) < self.PER_STRATUM:
                    heapq.heappush(heap, (-rank, s))
                elif -rank > heap[0][0]:
                    heapq.heapreplace(heap, (-rank, s))

    def reject(self, exc):
        self.rejected[type(exc).__name__ if isinstance(exc, BaseException) else str(exc)] += 1

    def fail(self, clause, case, detail, key=""):
        """Register an oracle failure for ``case`` (collect mode: does not raise)."""
        for kid, kclause, pred in self.known:
            if (kclause is None or kclause == clause) and pred(case, clause, detail):
                self.excluded_known[kid] += 1
                return False
        f = Failure(clause, key, case, str(detail)[:2000])
        if self._current is not None:
            self._current.append(f)
        b = self.buckets.setdefault(f.bucket, {"count": 0, "cases": []})
        b["count"] += 1
        cases = b["cases"]
        cases.append(f.as_dict())
        cases.sort(key=lambda d: len(canon(d["case"])))
        del cases[self.KEEP_PER_BUCKET:]
        return True

    def out_of_time(self):
        if self.deadline is not None and time.time() > self.deadline:
            self.truncated = True
            return True
        return False

    # -- merging -----------------------------------------------------------------------------
    def export(self):
        return {
            "evaluations": self.evaluations,
            "nontrivial": self.nontrivial,
            "nontrivial_enumerated": self.nontrivial_enumerated,
            "classes": self.classes,
            "rejected": self.rejected,
            "excluded_known": self.excluded_known,
            "samples": self.samples,
            "buckets": self.buckets,
            "exhaustive": self.exhaustive,
            "notes": self.notes,
            "truncated": self.truncated,
        }

    def merge(self, d):
        self.evaluations += d["evaluations"]
        self.nontrivial |= d["nontrivial"]
        self.nontrivial_enumerated += d["nontrivial_enumerated"]
        self.classes.update(d["classes"])
        self.rejected.update(d["rejected"])
        self.excluded_known.update(d["excluded_known"])
        for stratum, items in d["samples"].items():
            heap = self.samples.setdefault(stratum, [])
            for item in items:
                if item in heap:
                    continue
                if len(heap) < self.PER_STRATUM:
                    heapq.heappush(heap, item)
                elif item[0] > heap[0][0]:
                    heapq.heapreplace(heap, item)
        for k, b in d["buckets"].items():
            mine = self.buckets.setdefault(k, {"count": 0, "cases": []})
            mine["count"] += b["count"]
            mine["cases"].extend(b["cases"])
            mine["cases"].sort(key=lambda x: len(canon(x["case"])))
            del mine["cases"][self.KEEP_PER_BUCKET:]
        self.exhaustive.update(d["exhaustive"])
        self.notes.extend(n for n in d["notes"] if n not in self.notes)
        self.truncated = self.truncated or d["truncated"]

    def child(self):
        c = Ctx(self.prop, self.tier, self.seed, self.known)
        c.deadline = self.deadline
        return c

    # -- sharded execution ---------------------------------------------------------------------
    def parallel(self, fn, args_list, nproc=None):
        """Run ``fn(ctx, arg)`` for every arg in forked workers and merge their contexts.

        Everything a worker needs is inherited through fork; only the exported counters travel
        back.  A worker that raises makes the whole run a harness error (exit 2).
        """
        args_list = list(args_list)
        if not args_list:
            return
        nproc = min(nproc or NPROC, len(args_list))
        if nproc <= 1 or os.environ.get("VERIF_SERIAL"):
            for a in args_list:
                c = self.child()
                fn(c, a)
                self.merge(c.export())
            return
        global _PAR
        _PAR = (self, fn)
        mp = multiprocessing.get_context("fork")
        with mp.Pool(nproc) as pool:
            for res in pool.imap_unordered(_par_entry, args_list, chunksize=1):
                if "error" in res:
                    raise HarnessError("worker failed:\n" + res["error"])
                self.merge(res)


_PAR = None


def _par_entry(arg):
    parent, fn = _PAR
    c = parent.child()
    try:
        fn(c, arg)
    except BaseException:  # pylint: disable=broad-except
        return {"error": traceback.format_exc()}
    return c.export()


# ---------------------------------------------------------------------------------------------
# Hypothesis driver: collect-then-shrink
# ---------------------------------------------------------------------------------------------
def hyp_seed(ctx, shard=0, salt=0):
    return (ctx.seed * 1000003 + shard * 7919 + salt * 104729 + 17) % (2**63)


def run_hypothesis(ctx, strategy, body, max_examples, shard=0, salt=0, shrink_budget=None):
    """Drive ``body(ctx, case)`` with cases drawn from ``strategy``.

    Pass 1 (collect): every oracle failure is bucketed through ``ctx.fail`` and generation goes
    on, so one shallow defect does not hide what lies behind it.  Pass 2 (shrink): for every
    bucket that pass 1 produced in this call, the same seeded test is re-run in raise mode for
    that bucket with ``Phase.shrink`` on; the minimal failing case replaces the collected ones.
    """
    import hypothesis
    from hypothesis import HealthCheck, Phase, given, settings

    if shrink_budget is None:
        shrink_budget = 400 if ctx.tier == "quick" else 4000
    the_seed = hyp_seed(ctx, shard, salt)
    common = dict(
        database=None,
        deadline=None,
        derandomize=False,
        report_multiple_bugs=False,
        print_blob=False,
        suppress_health_check=list(HealthCheck),
    )
    before = set(ctx.buckets)

    @hypothesis.seed(the_seed)
    @settings(max_examples=max_examples, phases=[Phase.generate], **common)
    @given(strategy)
    def collect(case):
        if ctx.skip():
            return
        ctx._current = []
        try:
            body(ctx, case)
        finally:
            ctx._current = None

    try:
        collect()
    except hypothesis.errors.HypothesisException as e:
        raise HarnessError(f"hypothesis health/usage error: {e!r}") from e

    new = [b for b in ctx.buckets if b not in before]
    for bucket in new:
        state = {"best": None, "calls": 0}
        scratch = Ctx(ctx.prop, ctx.tier, ctx.seed, ctx.known)

        @hypothesis.seed(the_seed)
        @settings(max_examples=max_examples, phases=[Phase.generate, Phase.shrink], **common)
        @given(strategy)
        def shrink(case, bucket=bucket, state=state, scratch=scratch):
            state["calls"] += 1
            over = state["calls"] > max_examples + shrink_budget
            if over and state["best"] is not None:
                if canon(case) == canon(state["best"]["case"]):
                    raise AssertionError(bucket)
                return
            scratch._current = []
            scratch.buckets = {}
            body(scratch, case)
            hit = [f for f in scratch._current if f.bucket == bucket]
            scratch._current = None
            if hit:
                state["best"] = hit[0].as_dict()
                raise AssertionError(bucket)

        try:
            shrink()
        except AssertionError:
            pass
        except hypothesis.errors.HypothesisException:
            pass  # flaky under shrinking: keep the collected cases
        if state["best"] is not None:
            cases = ctx.buckets[bucket]["cases"]
            cases.insert(0, state["best"])
            cases.sort(key=lambda d: len(canon(d["case"])))
            del cases[ctx.KEEP_PER_BUCKET:]


def run_machine(ctx, machine_cls, max_examples, steps, shard=0, salt=0):
    """Run a RuleBasedStateMachine whose rules report through ctx.fail (collect mode).

    The machine class must expose ``ctx`` as a class attribute set by the caller.  Histories are
    reported by the machine itself (it owns the operation log), so no shrinking pass is run by
    Hypothesis here: the machine stores the shortest failing history it has seen.
    """
    import hypothesis
    from hypothesis import HealthCheck, Phase, settings
    from hypothesis.stateful import run_state_machine_as_test

    st = settings(
        max_examples=max_examples,
        stateful_step_count=steps,
        phases=[Phase.generate],
        database=None,
        deadline=None,
        derandomize=False,
        report_multiple_bugs=False,
        print_blob=False,
        suppress_health_check=list(HealthCheck),
    )
    try:
        run_state_machine_as_test(hypothesis.seed(hyp_seed(ctx, shard, salt))(machine_cls), settings=st)
    except hypothesis.errors.HypothesisException as e:
        raise HarnessError(f"hypothesis health/usage error: {e!r}") from e


# ---------------------------------------------------------------------------------------------
# Helpers shared by the check modules
# ---------------------------------------------------------------------------------------------
def quiet_formulae():
    import formulae  # noqa: F401  pylint: disable=unused-import

    logging.getLogger("formulae").setLevel(logging.CRITICAL)


class Silence:
    """Swallow the prints formulae emits on stdout when a term fails to evaluate."""

    def __enter__(self):
        self._stdout = sys.stdout
        sys.stdout = open(os.devnull, "w")  # pylint: disable=consider-using-with
        return self

    def __exit__(self, *exc):
        sys.stdout.close()
        sys.stdout = self._stdout
        return False


HANGS = 0  # per process: after two hangs the remaining cases of this process are skipped (run marked truncated)


def hanging():
    return HANGS >= 2


class NoResult(Exception):
    """The library did not return within the (very generous) limit."""


class TimeLimit:
    """Watchdog around one call into the library.  Normal calls take milliseconds; the limit is
    thousands of times that, so it only ever fires on a non-terminating computation, which the
    checks report as "no result" for a documented input (never as a timing judgement)."""

    def __init__(self, seconds=30, library=True):
        self.seconds = seconds
        self.library = library  # False: the guarded call is the oracle's own computation, not the library's

    def _fire(self, signum, frame):  # pylint: disable=unused-argument
        global HANGS
        if self.library:
            HANGS += 1
        raise NoResult(f"no result within {self.seconds} s")

    def __enter__(self):
        import signal

        self._old = signal.signal(signal.SIGALRM, self._fire)
        signal.setitimer(signal.ITIMER_REAL, self.seconds)
        return self

    def __exit__(self, *exc):
        import signal

        signal.setitimer(signal.ITIMER_REAL, 0)
        signal.signal(signal.SIGALRM, self._old)
        return False


class Guard:
    """Silence + TimeLimit, the standard wrapper around a call into formulae."""

    def __init__(self, seconds=30):
        self.s, self.t = Silence(), TimeLimit(seconds)

    def __enter__(self):
        self.s.__enter__()
        self.t.__enter__()
        return self

    def __exit__(self, *exc):
        self.t.__exit__(*exc)
        self.s.__exit__(*exc)
        return False


def exc_key(e):
    """Root-cause key of an exception: type + innermost frame inside formulae."""
    tb = e.__traceback__
    where = ""
    while tb is not None:
        fn = tb.tb_frame.f_code.co_filename
        if "/formulae/" in fn:
            where = f"{os.path.basename(fn)}:{tb.tb_frame.f_code.co_name}"
        tb = tb.tb_next
    return f"{type(e).__name__}@{where}"
