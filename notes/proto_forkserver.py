import multiprocessing as mp, time, os
def task(args):
    import formulae, pandas as pd, numpy as np
    f,cols=args
    d=pd.DataFrame(cols)
    dm=formulae.design_matrices(f,d)
    return os.getpid(), np.asarray(dm.common.design_matrix).tolist(), formulae.config.EVAL_UNSEEN_CATEGORIES
if __name__=='__main__':
    ctx=mp.get_context('forkserver')
    ctx.set_forkserver_preload(['formulae','pandas','numpy'])
    t=time.time()
    with ctx.Pool(4,maxtasksperchild=1) as p:
        r=p.map(task,[("y ~ scale(x)",{'y':[1.,2,3],'x':[1.,2,4]})]*40,chunksize=1)
    print(len(set(x[0] for x in r)), time.time()-t)
