# Independent reference parser (precedence climbing) over token lists [(kind, lexeme)]
class Reject(Exception): pass
BIN = {  # kind -> (precedence, name)
 'PIPE':(2,'|'),
 'EQUAL_EQUAL':(3,'=='),'BANG_EQUAL':(3,'!='),'LESS_EQUAL':(3,'<='),'LESS':(3,'<'),'GREATER_EQUAL':(3,'>='),'GREATER':(3,'>'),
 'PLUS':(4,'+'),'MINUS':(4,'-'),'STAR':(5,'*'),'SLASH':(5,'/'),'COLON':(6,':'),'STAR_STAR':(7,'**')}
class P:
    def __init__(self,toks,loose=False): self.t=toks; self.i=0; self.loose=loose
    def peek(self): return self.t[self.i][0] if self.i<len(self.t) else 'EOF'
    def next(self): k=self.t[self.i]; self.i+=1; return k
    def parse(self):
        e=self.expression()
        if self.peek()!='EOF': raise Reject('leftover')
        return e
    def expression(self):
        e=self.tilde()
        if self.peek()=='EQUAL':
            self.next(); r=self.binary(4)
            if e[0]!='var': raise Reject('assign target')
            return ('assign',e,r)
        return e
    def tilde(self):
        e=self.binary(2)
        if self.peek()=='TILDE':
            self.next(); r=self.binary(2 if self.loose else 4)
            return ('~',e,r)
        return e
    def binary(self,minp):
        left=self.unary()
        while True:
            k=self.peek()
            if k in BIN and BIN[k][0]>=minp:
                p,name=BIN[k]; self.next()
                right=self.binary(p+1)       # left associative
                left=(name,left,right)
            else: return left
    def unary(self):
        if self.peek() in ('PLUS','MINUS'):
            k=self.next(); return ('u'+k[1], self.unary())
        return self.call()
    def call(self):
        e=self.primary()
        while self.peek()=='LEFT_PAREN':
            self.next(); args=[]
            if self.peek()!='RIGHT_PAREN':
                while True:
                    args.append(self.expression())
                    if self.peek()=='COMMA': self.next()
                    else: break
            if self.peek()!='RIGHT_PAREN': raise Reject(') args')
            self.next(); e=('call',e,tuple(args))
        return e
    def primary(self):
        k=self.peek()
        if k=='IDENTIFIER':
            name=self.next()[1]
            if self.peek()=='LEFT_BRACKET':
                self.next(); lv=self.primary()
                if lv[0]=='lit' and not isinstance(lv[1],str): raise Reject('level')
                if lv[0]=='var':
                    if lv[2] is not None: raise Reject('nested')
                    lv=('lit',lv[1])
                if self.peek()!='RIGHT_BRACKET': raise Reject(']')
                self.next(); return ('var',name,lv)
            return ('var',name,None)
        if k in ('NUMBER','STRING','PYTHON_LITERAL'):
            t=self.next(); return ('lit',t[2])
        if k=='BQNAME': return ('bq',self.next()[1])
        if k=='LEFT_PAREN':
            self.next(); e=self.expression()
            if self.peek()!='RIGHT_PAREN': raise Reject(')')
            self.next(); return ('grp',e)
        if k=='LEFT_BRACE':
            self.next(); e=self.expression()
            if self.peek()!='RIGHT_BRACE': raise Reject('}')
            self.next(); return ('call',('var','I',None),(e,))
        raise Reject('primary '+k)
# impl AST -> tuples
from formulae import expr as E
OPN={'PIPE':'|','EQUAL_EQUAL':'==','BANG_EQUAL':'!=','LESS_EQUAL':'<=','LESS':'<','GREATER_EQUAL':'>=','GREATER':'>','PLUS':'+','MINUS':'-','STAR':'*','SLASH':'/','COLON':':','STAR_STAR':'**','TILDE':'~'}
def conv(a):
    if isinstance(a,E.Binary): return (OPN[a.operator.kind],conv(a.left),conv(a.right))
    if isinstance(a,E.Unary): return ('u'+a.operator.lexeme,conv(a.right))
    if isinstance(a,E.Grouping): return ('grp',conv(a.expression))
    if isinstance(a,E.Call): return ('call',conv(a.callee),tuple(conv(x) for x in a.args))
    if isinstance(a,E.Variable): return ('var',a.name.lexeme, None if a.level is None else conv(a.level))
    if isinstance(a,E.Literal): return ('lit',a.value)
    if isinstance(a,E.QuotedName): return ('bq',a.expression.lexeme)
    if isinstance(a,E.Assign): return ('assign',conv(a.name),conv(a.value))
    raise TypeError(a)
