import logging, sys, warnings
if "rc" in sys.argv: sys.path.insert(0,"/tmp/exp/rc")
import numpy as np, pandas as pd
from formulae import design_matrices, config
logging.getLogger("formulae").setLevel(logging.ERROR)
rng=np.random.default_rng(5)
N=36
d=pd.DataFrame({'y':rng.normal(size=N),'x':rng.normal(size=N),'f':rng.choice(['a','b','c'],size=N),'g':rng.choice(['g1','g2','g3'],size=N),'h':rng.choice(['h1','h2'],size=N),'k':rng.integers(1,4,size=N)})
def run(f, var, newval):
    dm=design_matrices(f,d)
    idx=[0,1,2,3,4,5]
    base=d.iloc[idx].reset_index(drop=True)
    nd=base.copy(); nd[var]=nd[var].astype(object); nd.loc[[1,4],var]=newval
    res=[]
    for part in ('common','group'):
        M=getattr(dm,part)
        if M is None: continue
        config.EVAL_UNSEEN_CATEGORIES='error'
        try:
            M.evaluate_new_data(nd); res.append((part,'error-mode did not raise'))
        except ValueError: pass
        except Exception as e: res.append((part,'error-mode raised',type(e).__name__))
        for mode in ('silent','warning'):
            config.EVAL_UNSEEN_CATEGORIES=mode
            with warnings.catch_warnings(record=True) as w:
                warnings.simplefilter('always')
                try:
                    new=M.evaluate_new_data(nd)
                except Exception as e:
                    res.append((part,mode,'EXC',type(e).__name__,str(e)[:60])); continue
            ref=M.evaluate_new_data(base).design_matrix
            got=new.design_matrix
            res.append((part,mode,ref.shape,got.shape,'warned' if any(issubclass(x.category,UserWarning) for x in w) else 'nowarn', getattr(new,'factors_with_new_levels',None)))
            if part=='common':
                labels=list(new.as_dataframe().columns)
                for j,l in enumerate(labels):
                    inv = any(p.split('[')[0] in (var, f"C({var})") for p in l.split(':'))
                    for i in range(len(nd)):
                        exp = 0 if (inv and i in (1,4)) else ref[i,j]
                        if not np.isclose(got[i,j],exp): res.append(('BAD',mode,l,i,got[i,j],exp))
    config.EVAL_UNSEEN_CATEGORIES='error'
    return res
for f,var,nv in [("y ~ f",'f','zz'),("y ~ 0 + f",'f','zz'),("y ~ f:x + h",'f','zz'),("y ~ f*h",'h','zz'),("y ~ S(f)",'f','zz'),("y ~ C(k)",'k',99),("y ~ x + (x|g)",'g','zz'),("y ~ (f|g)",'f','zz'),("y ~ (f|g)",'g','zz'),("y ~ (x|g:h) + (1|h)",'h','zz'),("y ~ (1|g) + (x|h) + (0 + x|g)",'g','zz'), ("y ~ (1|C(k))",'k',99)]:
    print(f,var); 
    for r in run(f,var,nv): print('    ',r)
