import itertools, logging, sys, collections, warnings
if "rc" in sys.argv: sys.path.insert(0,"/tmp/exp/rc")
import numpy as np, pandas as pd
from formulae import design_matrices
logging.getLogger("formulae").setLevel(logging.ERROR)
rng=np.random.default_rng(3)
N=30
data=pd.DataFrame({'y':rng.normal(size=N),'x':rng.normal(size=N)*3+10,'z':rng.normal(size=N),
  'f':rng.choice(['b','a'],size=N),'g':rng.choice(['g3','g1','g2'],size=N),
  'h':pd.Categorical(rng.choice(['lo','mid','hi','top'],size=N),categories=['lo','mid','hi','top'],ordered=True),
  'u':pd.Categorical(rng.choice(['q','p','r'],size=N)),
  'k':rng.integers(1,4,size=N), 'n':rng.integers(5,9,size=N), 's':rng.integers(0,5,size=N)})
lv=[2,3,1]
def myf(x): return x-x.mean()
def check(f):
    dm=design_matrices(f,data)
    out=[]
    for idx in ([0],[3,3,1],list(range(N))[::-1], [5,6,7,8]):
        nd=data.iloc[idx].reset_index(drop=True)
        for part in ('common','group'):
            M=getattr(dm,part)
            if M is None: continue
            try:
                new=M.evaluate_new_data(nd).design_matrix
                if new.shape!=M.design_matrix[idx].shape or not np.allclose(new, M.design_matrix[idx]): out.append((part,idx[:3],'DIFF'))
            except Exception as e:
                out.append((part,idx[:3],type(e).__name__,str(e)[:50]))
    return out
fs=["y ~ x + f + g","y ~ center(x)","y ~ scale(x) + standardize(z)","y ~ bs(x, df=4)","y ~ bs(x, df=4, intercept=True):f","y ~ poly(x, 3)","y ~ poly(x, 3, raw=True)", "y ~ scale(np.log(x))","y ~ center(scale(x))", "y ~ f:scale(x)", "y ~ C(k)", "y ~ C(k, levels=lv)", "y ~ C(h)", "y ~ h", "y ~ u", "y ~ C(u)", "y ~ T(g, 'g2')", "y ~ S(g)", "y ~ C(g, Sum('g1'))", "y ~ C(g, Treatment('g3'))", "y ~ S(g, 'g2'):x", "y ~ myf(x)", "y ~ I(x - np.mean(x))", "y ~ binary(g, 'g2')", "y~binary(k)", "y ~ x + offset(z)", "y ~ offset(2)", "y ~ x + (x|g)", "y ~ (scale(x)|g)", "y~(f|g)", "y ~ (0+f|g)", "y ~ (0 + f|g+h) + (1|g)", "y ~ (x|g:f)", "y ~ (1|C(k))", "y ~ (h|g)", "y~ (poly(x,2)|g)", "y ~ f*g", "y ~ 0 + f:g", "y ~ g:f + f", "y ~ (f:h|g)", "p(s, n) ~ x"]
for f in fs:
    try: print(f, check(f) or 'ok')
    except Exception as e: print(f,'EXC',type(e).__name__,e)
