import sys, time, itertools, logging, collections
if "rc" in sys.argv: sys.path.insert(0,"/tmp/exp/rc")
from formulae import model_description
from formulae.scanner import Scanner
from formulae.parser import Parser
from refparse import P, Reject, conv
logging.getLogger("formulae").setLevel(logging.CRITICAL)
alpha=['y','x','1','0','2','~','|','+','-','*','/',':','**','(',')',',','=','==','[',']',"'a'",'f','{','}']
L=int(sys.argv[1])
cnt=collections.Counter(); ex=collections.defaultdict(list)
t=time.time()
for n in range(1,L+1):
    for toks in itertools.product(alpha,repeat=n):
        s=' '.join(toks)
        try: tk=Scanner(s).scan()
        except Exception: cnt['scanreject']+=1; continue
        rt=[(k.kind,k.lexeme,k.literal) for k in tk[:-1]]
        ref={}
        for loose in (False,True):
            try: ref[loose]=P(rt,loose).parse()
            except Reject as e: ref[loose]=None
        try: got=conv(Parser(Scanner(s).scan()).parse())
        except Exception as e: got=None
        try: model_description(s); acc=True
        except Exception: acc=False
        if ref[True] is None:
            key='nonsentence-rejected' if not acc else 'NONSENTENCE-ACCEPTED'
        elif ref[False] is None:
            key='loose-only-rejected' if got is None else ('loose-only-ok' if got==ref[True] else 'LOOSE-MISMATCH')
        else:
            if got is None: key='SENTENCE-PARSE-REJECTED'
            elif got!=ref[False]: key='AST-MISMATCH'
            else: key='sentence-ok-accepted' if acc else 'sentence-ok-resolver-rejected'
        cnt[key]+=1
        if key.isupper() or key[0].isupper():
            if len(ex[key])<10: ex[key].append(s)
print(time.time()-t, cnt)
for k,v in ex.items(): print(k,v)
