import itertools, logging, sys, collections, warnings
import numpy as np, pandas as pd
from formulae import design_matrices
logging.getLogger("formulae").setLevel(logging.ERROR)
rng=np.random.default_rng(5)
N=24
base=pd.DataFrame({'y':rng.normal(size=N),'x':rng.normal(size=N)*3+10,'z':rng.normal(size=N),'w':rng.normal(size=N),
  'f':rng.choice(['b','a'],size=N),'g':rng.choice(['g3','g1','g2'],size=N),
  'k':rng.integers(1,4,size=N).astype(float), 'my var':rng.normal(size=N),'unused':rng.normal(size=N)})
def mats(dm):
    out={}
    for part in ('response','common','group'):
        M=getattr(dm,part)
        if M is not None: out[part]=np.asarray(M.design_matrix,dtype=float)
    return out
def add(x,y): return x+y
def check(f, used):
    out=[]
    for trial in range(6):
        d=base.copy()
        for c in ['x','z','w','my var','unused','y','k']:
            m=rng.random(N)<0.15
            d.loc[m,c]=np.nan
        cols=[c for c in used]
        bad=d[cols].isna().any(axis=1)
        ref=mats(design_matrices(f,d[~bad]))
        got=mats(design_matrices(f,d,na_action='drop'))
        for k in ref:
            if ref[k].shape!=got[k].shape or not np.allclose(ref[k],got[k],equal_nan=True): out.append(('drop',k,ref[k].shape,got[k].shape))
        try:
            design_matrices(f,d,na_action='error'); raised=False
        except ValueError: raised=True
        if raised!=bool(bad.any()): out.append(('error',raised,bad.any()))
    return out
fs=[("y ~ x",['y','x']),("y ~ x + f",['y','x','f']),("y ~ np.log(x)",['y','x']),("y ~ add(x, z)",['y','x','z']),("y ~ add(x, y=z)",['y','x','z']),("y ~ add(np.exp(x), np.exp(z))",['y','x','z']),("y ~ I(x + z*w)",['y','x','z','w']),("y ~ {x - w}",['y','x','w']),("y ~ `my var`",['y','my var']),("y ~ np.exp(`my var`)",['y','my var']),("y ~ x:f + (z|g)",['y','x','f','z','g']),("y ~ (1|C(k))",['y','k']),("y ~ scale(x) + (w|g:f)",['y','x','w','g','f']),("np.exp(y) ~ x",['y','x']), ("x",['x']), ("y ~ x + offset(z)",['y','x','z']), ("y ~ bs(x, df=3)", ['y','x']), ("y ~ add(x, -z)",['y','x','z']), ("y ~ I((x > 1) * w)",['y','x','w'])]
for f,u in fs:
    try: print(f, check(f,u) or 'ok')
    except Exception as e: print(f,'EXC',type(e).__name__,e)
