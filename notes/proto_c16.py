import logging, sys, warnings
if "rc" in sys.argv: sys.path.insert(0,"/tmp/exp/rc")
import numpy as np, pandas as pd
from formulae import design_matrices, config
logging.getLogger("formulae").setLevel(logging.ERROR)
rng=np.random.default_rng(5)
N=12
d=pd.DataFrame({'y':rng.normal(size=N),'x':rng.normal(size=N),'f':rng.choice(['a','b','c'],size=N),'k':rng.integers(1,4,size=N),'s':rng.integers(0,5,size=N),'n':rng.integers(5,9,size=N)})
nd=d.iloc[[3,1,1]].reset_index(drop=True); nd['x']=[10.,20.,30.]; nd['n']=[50,60,70]
def t(f, part='common', new=True):
    try:
        dm=design_matrices(f,d)
        M=getattr(dm,part)
        print(f, 'train', np.asarray(M.design_matrix)[:2].tolist(), end=' ')
        if new:
            r=M.evaluate_new_data(nd); r=r.design_matrix if hasattr(r,'design_matrix') else r
            print('new', np.asarray(r).tolist())
        else: print()
    except Exception as e: print(f,'EXC',type(e).__name__,e)
for f in ["y ~ 0 + offset(2)","y ~ 0 + offset(-2)","y ~ 0 + offset(2.5)","y ~ 0 + offset(x)","y ~ 0 + offset(-x)","y ~ 0 + offset(np.exp(x))","y ~ 0 + offset(x*2)", "y ~ 0 + offset(1+1)"]: t(f)
for f in ["p(s, n) ~ x","prop(s, 10) ~ x","proportion(s, n) ~ x","p(s, trials=n) ~ x","p(s, trials=10) ~ x", "p(s, 3) ~ x","p(s, 10.0) ~ x","p(x, n) ~ x", "p(s, n + 1) ~ x"]: t(f,'response')
for f in ["y ~ 0 + binary(f, 'b')","y ~ 0 + B(f, 'b')","y ~ 0 + binary(k)","y ~ 0+ binary(k, 2)","y ~ 0 + binary(f, 'zz')","y ~ 0 + binary(x > 0)", "y ~ 0 + binary(f)"]: t(f)
