import itertools, sys, logging, collections
logging.getLogger("formulae").setLevel(logging.ERROR)
from formulae import model_description
logging.getLogger("formulae").setLevel(logging.ERROR)

# ---- reference algebra -------------------------------------------------
# value: ordered list of terms; term: tuple of factor names (ordered, dedup); () = intercept
# negint marker: 'NEG'
def uniq(seq):
    out=[]
    for s in seq:
        if s not in out: out.append(s)
    return out
def tjoin(a,b):
    return tuple(uniq(list(a)+list(b)))
class V:
    def __init__(self, terms=(), neg=False):
        self.terms=uniq(terms); self.neg=neg
def ev(t):
    k=t[0]
    if k=='var': return V([(t[1],)])
    if k=='one': return V([()])
    if k=='zero': return V([],neg=True)
    if k=='+':
        a,b=ev(t[1]),ev(t[2])
        terms=uniq(a.terms+b.terms)
        if b.neg: terms=[x for x in terms if x!=()]
        # a.neg and b has intercept: intercept later wins
        neg = b.neg or (a.neg and () not in b.terms)
        return V(terms,neg)
    if k=='-':
        a,b=ev(t[1]),ev(t[2])
        terms=[x for x in a.terms if x not in b.terms]
        return V(terms,a.neg)
    if k==':':
        a,b=ev(t[1]),ev(t[2])
        return V([tjoin(x,y) for x in a.terms for y in b.terms])
    if k=='*':
        a,b=ev(t[1]),ev(t[2])
        return V(a.terms+b.terms+[tjoin(x,y) for x in a.terms for y in b.terms])
    if k=='/':
        a,b=ev(t[1]),ev(t[2])
        allf=tuple(uniq([f for x in a.terms for f in x]))
        return V(a.terms+[tjoin(allf,y) for y in b.terms])
    if k=='**':
        a=ev(t[1]); n=t[2]
        out=list(a.terms)
        for i in range(2,n+1):
            for c in itertools.combinations(a.terms,i):
                tt=()
                for x in c: tt=tjoin(tt,x)
                out.append(tt)
        return V(out)
    raise ValueError(k)

def render(t):
    k=t[0]
    if k=='var': return t[1]
    if k=='one': return '1'
    if k=='zero': return '0'
    if k=='**': return f"({render(t[1])})**{t[2]}"
    return f"({render(t[1])} {k} {render(t[2])})"

def canon_terms(terms):
    return sorted(set(frozenset(x) for x in terms), key=lambda s: (len(s), sorted(s)))

def impl(fstr):
    m=model_description(fstr)
    com=[]
    for t in m.common_terms:
        if t.name=='Intercept': com.append(())
        else: com.append(tuple(str(c.name) for c in t.components))
    return com

if __name__=='__main__':
    atoms=[('var','a'),('var','b'),('var','f(x, 2)')]
    ops=['+','-',':','*','/']
    def trees(n):
        if n==0:
            for a in atoms: yield a
            return
        for k in range(n):
            for l in trees(k):
                for r in trees(n-1-k):
                    for op in ops:
                        yield (op,l,r)
        for l in trees(n-1):
            for p in (2,3):
                yield ('**',l,p)
    cnt=collections.Counter(); ex={}
    N=int(sys.argv[1])
    for n in range(N+1):
        for t in trees(n):
            s=render(t)
            exp=ev(t)
            want=[()]+exp.terms if True else exp.terms   # implicit 1 + ...
            want=canon_terms(uniq([()]+exp.terms))
            try:
                got=canon_terms(impl("y ~ "+s))
                if got!=want:
                    key=('MISMATCH',)
                    cnt[key]+=1; ex.setdefault(key,[]).append((s,[sorted(x) for x in want],[sorted(x) for x in got]))
                else: cnt['ok']+=1
            except Exception as e:
                key=('EXC',type(e).__name__,str(e)[:60])
                cnt[key]+=1; ex.setdefault(key,[]).append(s)
    for k,v in cnt.items():
        print(k,v)
        if k!='ok':
            for e in ex[k][:6]: print('    ',e)
    print('-----')
    for s,w,g in ex.get(('MISMATCH',),[]):
        if ' - ' not in s: print(s,w,g)
