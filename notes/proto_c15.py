import logging, sys, warnings
if "rc" in sys.argv: sys.path.insert(0,"/tmp/exp/rc")
import numpy as np, pandas as pd
from formulae import design_matrices
logging.getLogger("formulae").setLevel(logging.ERROR)
rng=np.random.default_rng(5)
N=8
d=pd.DataFrame({'y':rng.normal(size=N),'x':rng.normal(size=N),'g':rng.choice(['b','a','c c'],size=N),
 'h':pd.Categorical(rng.choice(['lo','mid','hi'],size=N),categories=['lo','mid','hi'],ordered=True),
 'u':pd.Categorical(rng.choice(['q','p'],size=N)),'k':rng.integers(1,3,size=N),'s':rng.integers(0,5,size=N),'n':rng.integers(5,9,size=N)})
for f in ["y ~ x","g ~ x","h ~ x","u ~ x","g[a] ~ x","g['c c'] ~ x","g[\"c c\"] ~ x","h[mid] ~ x","g[zz] ~ x","k ~ x","C(k) ~ x","k[1] ~ x","np.exp(y) ~ x","binary(g, 'a') ~ x","p(s, n) ~ x","p(s, 9) ~ x","y + x ~ x","y:x ~ x","y*x ~ x","1 ~ x","(y) ~ x","x","0 + x","y ~ 0","g[a] ~ g", "y[a] ~ x", "scale(y) ~ x", "offset(y) ~ x", "`y` ~ x", "g[1] ~ x","g[a][b] ~ x", "g[a b] ~ x"]:
    try:
        dm=design_matrices(f,d)
        r=dm.response
        if r is None: print(f,'-> no response; common', None if dm.common is None else dm.common.design_matrix.shape)
        else: print(f,'->',r.kind, np.asarray(r.design_matrix).shape, r.levels, list(r.as_dataframe().columns), 'common', None if dm.common is None else list(dm.common.terms))
    except Exception as e: print(f,'EXC',type(e).__name__,str(e)[:80])
