import numpy as np, itertools
from formulae.categorical import Treatment, Sum
bad=[]
for n in range(1,13):
    levels=[f"l{i:02d}" for i in range(n)]
    for ref in [None]+levels:
        for enc,kw in ((Treatment,'reference'),(Sum,'omit')):
            e=enc(ref)
            R=e.code_without_intercept(list(levels)); F=e.code_with_intercept(list(levels))
            if R.matrix.shape!=(n,n-1): bad.append((enc.__name__,n,ref,'rshape',R.matrix.shape))
            if np.linalg.matrix_rank(np.column_stack([np.ones(n),R.matrix]))!=n: bad.append((enc.__name__,n,ref,'rrank'))
            if np.linalg.matrix_rank(F.matrix)!=n: bad.append((enc.__name__,n,ref,'frank',F.matrix.shape))
            if len(R.labels)!=R.matrix.shape[1] or len(F.labels)!=F.matrix.shape[1]: bad.append('labels')
            ri = 0 if ref is None else levels.index(ref)
            if enc is Sum: ri = n-1 if ref is None else levels.index(ref)
            if enc is Treatment:
                exp=np.delete(np.eye(n),ri,axis=1)
                if not np.array_equal(R.matrix,exp): bad.append(('T',n,ref,'matrix'))
                if R.labels!=[l for i,l in enumerate(levels) if i!=ri]: bad.append(('T',n,ref,'labels'))
                if not np.array_equal(F.matrix,np.eye(n)) or F.labels!=levels: bad.append(('T',n,ref,'full'))
            else:
                if n>1 and not np.array_equal(R.matrix.sum(0),np.zeros(n-1)): bad.append(('S',n,ref,'zerosum'))
                if not (R.matrix[ri]==-1).all(): bad.append(('S',n,ref,'omitrow'))
                if R.labels!=[l for i,l in enumerate(levels) if i!=ri]: bad.append(('S',n,ref,'labels'))
print(bad[:10], len(bad))
