import itertools, logging, sys, types
import numpy as np, pandas as pd
import formulae
from formulae import design_matrices
from formulae import transforms
logging.getLogger("formulae").setLevel(logging.ERROR)
N=4
SC=['data','builtin','locals','globals','extra']
VAL={'data':2.0,'builtin':3.0,'locals':5.0,'globals':7.0,'extra':11.0}
def probe(v):
    if isinstance(v,(pd.Series,np.ndarray)): return np.asarray(v,dtype=float)
    return np.ones(N)*float(v)
bad=[]; n=0
SRC='''
def level0(formula, data, env, extra, LOCALVAL):
    {locals_line}
    return design_matrices(formula, data, env=env, extra_namespace=extra)
'''
for role in ('arg','callee','dotted'):
  for subset in itertools.chain.from_iterable(itertools.combinations(SC,k) for k in range(0,6)):
    if role!='arg' and 'data' in subset: continue
    name='zeta'
    def mk(scope):
        v=VAL[scope]
        if role=='arg': return v
        fn=lambda x,v=v: np.asarray(x,dtype=float)*v
        if role=='callee': return fn
        return types.SimpleNamespace(sub=types.SimpleNamespace(fn=fn))
    data=pd.DataFrame({'y':np.arange(N,dtype=float),'x':np.arange(N,dtype=float)+1})
    if 'data' in subset: data['zeta']=VAL['data']
    if 'builtin' in subset: transforms.TRANSFORMS['zeta']=mk('builtin')
    else: transforms.TRANSFORMS.pop('zeta',None)
    g={'design_matrices':design_matrices,'probe':probe,'np':np}
    if 'globals' in subset: g['zeta']=mk('globals')
    extra={'zeta':mk('extra')} if 'extra' in subset else None
    src=SRC.format(locals_line="zeta = LOCALVAL" if 'locals' in subset else "pass")
    exec(src,g)
    f={'arg':'y ~ 0 + probe(zeta)','callee':'y ~ 0 + zeta(x)','dotted':'y ~ 0 + zeta.sub.fn(x)'}[role]
    order=[s for s in SC if s in subset]
    n+=1
    try:
        dm=g['level0'](f,data,0,extra,mk('locals'))
        got=np.asarray(dm.common.design_matrix).ravel()
        if not order: bad.append((role,subset,'no scope but resolved',got)); continue
        exp=VAL[order[0]]*(np.ones(N) if role=='arg' else data['x'].to_numpy())
        if not np.allclose(got,exp): bad.append((role,subset,'wrong scope',got[:2],exp[:2]))
    except Exception as e:
        if order: bad.append((role,subset,'EXC',type(e).__name__,str(e)[:40]))
transforms.TRANSFORMS.pop('zeta',None)
print(n,bad)
