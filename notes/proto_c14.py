import logging, sys, warnings, itertools
import numpy as np, pandas as pd
from formulae.transforms import BSpline, Polynomial, Center, Scale
rng=np.random.default_rng(5)
bad=[]; n=0
for trial in range(300):
    N=int(rng.integers(8,60))
    kind=rng.integers(0,4)
    x=rng.normal(size=N)
    if kind==1: x=np.round(x*2)/2      # ties
    if kind==2: x=x+1e6
    if kind==3: x=rng.integers(0,6,size=N).astype(float)
    for degree in range(0,6):
        for intercept in (False,True):
            order=degree+1
            mindf=order-(0 if intercept else 1)
            for df in (mindf, mindf+1, mindf+3):
                if df<=0: continue
                n+=1
                try:
                    B=BSpline()(pd.Series(x),df=df,degree=degree,intercept=intercept)
                except Exception as e:
                    bad.append(('EXC',kind,N,degree,intercept,df,type(e).__name__,str(e)[:60])); continue
                if B.shape!=(N,df): bad.append(('shape',kind,degree,intercept,df,B.shape))
                if (B< -1e-12).any(): bad.append(('neg',kind,degree,intercept,df,B.min()))
                if intercept and not np.allclose(B.sum(1),1,atol=1e-9): bad.append(('pou',kind,degree,intercept,df,np.abs(B.sum(1)-1).max()))
                if not np.isfinite(B).all(): bad.append(('nan',kind,degree,intercept,df))
import collections
c=collections.Counter((b[0],)+tuple(b[1:2]) for b in bad)
print(n,c)
for b in bad[:15]: print(b)
# poly
bad=[];n=0
for trial in range(300):
    N=int(rng.integers(8,60)); kind=rng.integers(0,3)
    x=rng.normal(size=N)
    if kind==1: x=np.round(x*2)/2
    if kind==2: x=x+1e4
    for d in range(1,7):
        if len(np.unique(x))<=d: continue
        n+=1
        P=Polynomial()(x,d)
        if P.shape!=(N,d): bad.append(('shape',kind,d))
        G=P.T@P
        if not np.allclose(G,np.eye(d),atol=1e-6): bad.append(('orth',kind,d,np.abs(G-np.eye(d)).max()))
        if not np.allclose(P.sum(0),0,atol=1e-6): bad.append(('const',kind,d,np.abs(P.sum(0)).max()))
        xc=(x-x.mean())/x.std()
        V=np.column_stack([np.ones(N)]+[xc**k for k in range(1,d+1)])
        r=np.linalg.matrix_rank(np.column_stack([V,P]),tol=1e-7); 
        if r!=d+1: bad.append(('span',kind,d,r))
        R=Polynomial()(x,d,raw=True)
        if not np.allclose(R,np.column_stack([x**k for k in range(1,d+1)])): bad.append(('raw',kind,d))
print(n,collections.Counter(b[:2] for b in bad)); print(bad[:10])
