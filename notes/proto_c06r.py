import itertools, logging, sys, collections, warnings, traceback, multiprocessing as mp
if "rc" in sys.argv: sys.path.insert(0,"/tmp/exp/rc")
import numpy as np, pandas as pd
from formulae import design_matrices
logging.getLogger("formulae").setLevel(logging.ERROR)
lv=[3,1,2]
NUM=['x','z','center(x)','scale(z)','standardize(x)','bs(x, df=4)','bs(z, df=5, degree=2, intercept=True)','poly(x, 3)','poly(z, 2, raw=True)','np.log(x)','I(x + z)','{x * 2}','scale(np.log(x))','center(scale(z))','I(center(x) ** 2)']
CAT=['f','g','h','u','C(k)','C(k, levels=lv)','C(h)','T(g, "g2")','S(g)','S(f, "a")','C(g, Treatment("g3"))','C(u, Sum)']
GRP=['g','f','h','C(k)','g:f','u']
def gen(seed):
    r=np.random.default_rng(seed)
    N=int(r.integers(12,40))
    d=pd.DataFrame({'y':r.normal(size=N),'x':r.normal(size=N)*3+20,'z':r.normal(size=N)+10,
      'f':r.choice(['b','a'],size=N),'g':r.choice(['g3','g1','g2'],size=N),
      'h':pd.Categorical(r.choice(['lo','mid','hi','top'],size=N),categories=['lo','mid','hi','top'],ordered=True),
      'u':pd.Categorical(r.choice(['q','p','r'],size=N)),'k':r.integers(1,4,size=N)})
    # ensure all levels present
    for c,vals in (('f',['a','b']),('g',['g1','g2','g3']),('k',[1,2,3])):
        d.loc[:len(vals)-1,c]=vals
    d['h']=pd.Categorical(list(['lo','mid','hi','top'])+list(d['h'].astype(str))[4:],categories=['lo','mid','hi','top'],ordered=True)
    d['u']=pd.Categorical(['p','q','r']+list(d['u'].astype(str))[3:])
    def base(a):
        import re
        return set(re.findall(r"\b(x|z|f|g|h|u|k)\b",a))
    def term():
        k=int(r.integers(1,4)); t=[]; used=set()
        for _ in range(k):
            a=str(r.choice(NUM+CAT))
            if base(a)&used: continue
            used|=base(a); t.append(a)
        return ":".join(t)
    items=[term() for _ in range(int(r.integers(1,4)))]
    if r.random()<0.3: items.insert(0,'0')
    for _ in range(int(r.integers(0,3))):
        e=" + ".join([term() for _ in range(int(r.integers(1,3)))])
        if r.random()<0.3: e="0 + "+e
        if r.random()<0.2: e="1"
        items.append(f"({e} | {r.choice(GRP)})")
    f="y ~ "+" + ".join(items)
    idxs=[list(r.integers(0,N,size=int(r.integers(1,6)))),[int(r.integers(0,N))],list(range(N))[::-1]]
    return f,d,idxs
def check(seed):
    f,d,idxs=gen(seed)
    try:
        with warnings.catch_warnings():
            warnings.simplefilter('ignore'); dm=design_matrices(f,d)
    except Exception as e:
        tb=[t for t in traceback.extract_tb(e.__traceback__) if 'formulae' in t.filename]
        return f,('BUILD-EXC',type(e).__name__,str(e)[:60],tb[-1].name if tb else '?')
    for idx in idxs:
        nd=d.iloc[idx].reset_index(drop=True)
        for part in ('common','group'):
            M=getattr(dm,part)
            if M is None: continue
            try:
                with warnings.catch_warnings():
                    warnings.simplefilter('ignore'); new=M.evaluate_new_data(nd).design_matrix
            except Exception as e:
                tb=[t for t in traceback.extract_tb(e.__traceback__) if 'formulae' in t.filename]
                return f,('EVAL-EXC',part,type(e).__name__,str(e)[:60],tb[-1].name if tb else '?')
            ref=M.design_matrix[idx]
            if new.shape!=ref.shape: return f,('SHAPE',part,new.shape,ref.shape)
            if not np.allclose(np.asarray(new,float),np.asarray(ref,float),rtol=1e-9,atol=1e-9): return f,('DIFF',part,idx[:4])
    return f,('ok',)
if __name__=='__main__':
    n=int(sys.argv[1]); cnt=collections.Counter(); ex=collections.defaultdict(list)
    with mp.Pool(16) as p:
        for f,res in p.imap_unordered(check,range(n),chunksize=16):
            k=res[0] if res[0]=='ok' else (res[0],)+tuple(res[-3:] if 'EXC' in res[0] else res[1:2])
            cnt[k]+=1
            if res[0]!='ok' and len(ex[k])<5: ex[k].append((f,res))
    print(cnt)
    for k,v in ex.items():
        print(k)
        for e in v: print('    ',e)
