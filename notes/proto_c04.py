import itertools, logging, sys, collections, warnings
if "rc" in sys.argv: sys.path.insert(0,"/tmp/exp/rc")
import numpy as np, pandas as pd
from formulae import design_matrices
logging.getLogger("formulae").setLevel(logging.ERROR)
rng=np.random.default_rng(3)
N=40
data=pd.DataFrame({'y':rng.normal(size=N),'x':rng.normal(size=N),'z':rng.normal(size=N),
  'f':rng.choice(['b','a'],size=N),'g':rng.choice(['g3','g1','g2'],size=N),
  'h':pd.Categorical(rng.choice(['lo','mid','hi','top'],size=N),categories=['lo','mid','hi','top'],ordered=True),
  'u':pd.Categorical(rng.choice(['q','p'],size=N)),  # unordered categorical, categories sorted by pandas
  'k':rng.integers(1,4,size=N)})
import re
def piece_value(piece, data):
    m=re.fullmatch(r"(C\((\w+)\)|\w+)(\[(.*)\])?", piece)
    assert m, piece
    var=m.group(2) or m.group(1); lvl=m.group(4)
    col=data[var]
    if lvl is None:
        return col.to_numpy().astype(float)
    return (col.astype(str)==lvl).to_numpy().astype(float)
def label_value(label, data):
    if '|' in label:
        e,g=label.split('|')
        ev=np.ones(len(data)) if e=='1' else label_value(e,data)
        m=re.fullmatch(r"(.*)\[(.*)\]", g)
        names=m.group(1).split(':'); lv=m.group(2).split(':')
        ind=np.ones(len(data))
        for n_,l in zip(names,lv):
            mm=re.fullmatch(r"C\((\w+)\)", n_)
            var=mm.group(1) if mm else n_
            ind=ind*(data[var].astype(str)==l).to_numpy()
        return ev*ind
    if label=='Intercept': return np.ones(len(data))
    v=np.ones(len(data))
    for p in label.split(':'): v=v*piece_value(p,data)
    return v
def check(f):
    dm=design_matrices(f,data)
    bad=[]
    if dm.common is not None:
        df=dm.common.as_dataframe()
        if df.shape[1]!=dm.common.design_matrix.shape[1]: bad.append('ncol')
        for j,c in enumerate(df.columns):
            if not np.allclose(label_value(c,data), dm.common.design_matrix[:,j]): bad.append(('common',c))
    if dm.group is not None:
        for name,t in dm.group.terms.items():
            M=dm.group[name]
            if len(t.labels)!=M.shape[1]: bad.append(('ncol',name)); continue
            for j,c in enumerate(t.labels):
                if not np.allclose(label_value(c,data), M[:,j]): bad.append(('group',c))
    return bad
fs=["y ~ x + f + g", "y ~ f:g", "y ~ g:f", "y ~ 0 + f:g:h", "y~ x:g:f", "y ~ g:x:f + h", "y ~ h", "y ~ 0 + h", "y ~ u + C(k)", "y ~ 0 + C(k):g", "y ~ x + (1|g)", "y ~ x + (x|g)", "y ~ (f|g)", "y ~ (0+f|g)", "y ~ (x|g:f)", "y ~ (x|f:g)", "y ~ (f:x|g)", "y~(h|g)+(1|f)", "y ~ (0 + f|g+h) + (1|g)", "y ~ (x|C(k))", "y ~ (f:h|g)", "y ~ (0+f:h|g)", "y ~ (x*f|g)", "y ~ f*g*h"]
for f in fs:
    try: print(f, check(f) or 'ok')
    except Exception as e: print(f,'EXC',type(e).__name__,e)
