import itertools, logging, sys, collections, warnings, multiprocessing as mp
if "rc" in sys.argv: sys.path.insert(0,"/tmp/exp/rc")
import numpy as np, pandas as pd
from formulae import design_matrices
logging.getLogger("formulae").setLevel(logging.ERROR)
from c03 import ref_matrix, rank
rng=np.random.default_rng(1)
cats=['a','b','c','d']
rows=list(itertools.product(range(2),repeat=4))*2
d={n:[f"{n}{r[i]}" for r in rows] for i,n in enumerate(cats)}
d['y']=rng.normal(size=len(rows))
data=pd.DataFrame(d)
subsets=[c for k in range(1,5) for c in itertools.combinations(cats,k)]
def check(args):
    mask,ic,seed=args
    r=np.random.default_rng(seed)
    terms=[subsets[i] for i in range(15) if mask>>i&1]
    terms=[tuple(r.permutation(t)) for t in terms]
    order=r.permutation(len(terms)); terms=[terms[i] for i in order]
    f="y ~ " + (" + ".join((["1"] if ic else ["0"])+[":".join(t) for t in terms]))
    R=ref_matrix(terms,ic,data,cats); rr=rank(R)
    try:
        with warnings.catch_warnings():
            warnings.simplefilter("ignore")
            dm=design_matrices(f,data)
        X=dm.common.design_matrix.astype(float) if dm.common is not None else np.zeros((len(data),0))
    except Exception as e:
        return f,('EXC',type(e).__name__, str(e)[:50])
    rx=rank(X)
    if rx<X.shape[1]: return f,('RANKDEF',X.shape[1],rx,rr)
    if rx!=rr: return f,('DIM',rx,rr)
    if rank(np.column_stack([X,R]))!=rr: return f,('SPAN',)
    return f,('ok',)
if __name__=='__main__':
    jobs=[(m,ic,m*2+ic) for m in range(1,2**15) for ic in (0,1)]
    if 'sample' in sys.argv: jobs=jobs[::16]
    cnt=collections.Counter(); ex=collections.defaultdict(list)
    with mp.Pool(16) as p:
        for f,res in p.imap_unordered(check,jobs,chunksize=64):
            cnt[res[0]]+=1
            if res[0]!='ok' and len(ex[res[0]])<10: ex[res[0]].append((f,res))
    print(cnt)
    for k,v in ex.items():
        print(k)
        for e in v: print('   ',e)
