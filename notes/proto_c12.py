import logging, sys, warnings
import numpy as np, pandas as pd
from formulae import design_matrices, config
logging.getLogger("formulae").setLevel(logging.ERROR)
rng=np.random.default_rng(5)
N=6
d=pd.DataFrame({'y':rng.normal(size=N),'x':rng.normal(size=N)+3,'z':rng.normal(size=N)+3,'w':rng.integers(1,4,size=N)})
calls=[]
def rec(*a,**k):
    calls.append((a,k)); 
    out=None
    for v in list(a)+list(k.values()):
        if isinstance(v,(pd.Series,np.ndarray)): out=np.asarray(v,dtype=float) if out is None else out+np.asarray(v,dtype=float)
    return out if out is not None else np.zeros(N)
def pick(x, s): return x * len(s)
def t(expr):
    f=f"y ~ 0 + I({expr})"
    ns=dict(x=d['x'],z=d['z'],w=d['w'],np=np,rec=rec,pick=pick)
    try: exp=eval(expr,{},ns)
    except Exception as e: exp=('PYEXC',type(e).__name__)
    try:
        dm=design_matrices(f,d)
        got=np.asarray(dm.common.design_matrix).astype(float).ravel()
        name=list(dm.common.terms)[0]
        if isinstance(exp,tuple): print(repr(expr),'-> python raises',exp,'formulae accepts',name)
        else:
            ok=np.allclose(got,np.asarray(exp,dtype=float))
            print(repr(expr),'OK' if ok else 'MISMATCH', name)
    except Exception as e:
        print(repr(expr),'EXC',type(e).__name__,str(e)[:70], '' if not isinstance(exp,tuple) else '(python also raises)')
for e in ["x + z * w","(x + z) * w","x - z - w","x / z / w","x / (z / w)","x ** 2","-x ** 2","(-x) ** 2","2 ** x ** 2","2 ** (x ** 2)","(2 ** x) ** 2","x ** -1","- x + z","-(x + z)","+x","- -x","x * -z","x < z","x + 1 < z * 2","(x < z) * 1","x == z","x != z","x >= 3","x <= 3","x > 3 > 2","1 + 2 * 3 - x","x * 1.5","x * .5","x*1e2","x // 2","x % 2","np.log(x) + np.exp(z)","np.power(x, 2)","rec(x, z, k=w)","rec(x, k=z + 1)","rec(rec(x), rec(z, w))","pick(x, 'ab')","pick(x, \"abc\")","pick(x, 'a b')","pick(x, \"it's\")","pick(x, 'say \"hi\"')","pick(x, 'a,b')","pick(x, 'a)b')","x * True","x * False","rec(x, None)","rec(x, k=None)","np.where(x > 3, 1, 0)","x if True else z", "x[0]", "np.linalg.norm(x) + x", "x  +   z", "x+z", "rec( x ,z )", "(x)", "((x + z))", "x * (z + w) - (x - z)"]:
    t(e)
