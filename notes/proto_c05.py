import itertools, logging, sys, collections, warnings
if "rc" in sys.argv: sys.path.insert(0,"/tmp/exp/rc")
import numpy as np, pandas as pd
from formulae import design_matrices
logging.getLogger("formulae").setLevel(logging.ERROR)
def rank(M): return np.linalg.matrix_rank(M) if M.size else 0
rng=np.random.default_rng(1)
cats={'f':2,'h':3,'g':3,'s':2}
names=list(cats)
rows=list(itertools.product(*[range(cats[n]) for n in names]))*3
d={n:[f"{n}{r[i]}" for r in rows] for i,n in enumerate(names)}
N=len(rows)
d['x']=rng.normal(size=N); d['z']=rng.normal(size=N); d['y']=rng.normal(size=N)
data=pd.DataFrame(d)
def ind(v):
    col=data[v]; lv=sorted(pd.unique(col)); return np.column_stack([(col==l).to_numpy().astype(float) for l in lv])
def full(term):
    M=np.ones((N,1))
    for a in term:
        I=ind(a) if a in cats else data[a].to_numpy()[:,None]
        M=np.column_stack([M[:,i]*I[:,j] for i in range(M.shape[1]) for j in range(I.shape[1])])
    return M
def check(effect_terms, ic, factor):
    # effect_terms: list of tuples; factor: tuple of cat names
    e=" + ".join((["1"] if ic else ["0"])+[":".join(t) for t in effect_terms])
    f=f"y ~ ({e} | {':'.join(factor)})"
    E=np.column_stack(([np.ones((N,1))] if ic else [])+[full(t) for t in effect_terms])
    J=full(factor)
    R=np.column_stack([J[:,i]*E[:,j] for i in range(J.shape[1]) for j in range(E.shape[1])])
    rr=rank(R)
    try:
        dm=design_matrices(f,data)
    except Exception as ex:
        return f,('EXC',type(ex).__name__,str(ex)[:60])
    Z=dm.group.design_matrix.astype(float)
    rz=rank(Z)
    if rz<Z.shape[1]: return f,('RANKDEF',Z.shape[1],rz,rr)
    if rz!=rr: return f,('DIM',rz,rr)
    if rank(np.column_stack([Z,R]))!=rr: return f,('SPAN',)
    return f,('ok',)
vars_=['f','h','x','z']
allterms=[p for k in (1,2) for c in itertools.combinations(vars_,k) for p in itertools.permutations(c)]
cnt=collections.Counter(); ex=collections.defaultdict(list)
for k in (1,2):
  for ts in itertools.permutations(allterms,k):
    if len(set(frozenset(t) for t in ts))<len(ts): continue
    for ic in (True,False):
        for factor in (('g',),('g','s')):
            f,res=check(list(ts),ic,factor)
            cnt[res[0]]+=1
            if res[0]!='ok' and len(ex[res[0]])<14: ex[res[0]].append((f,res))
print(cnt)
for k,v in ex.items():
    print(k)
    for e in v: print('   ',e)
