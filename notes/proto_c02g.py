import itertools, sys, logging, collections
if "rc" in sys.argv: sys.path.insert(0,"/tmp/exp/rc")
from formulae import model_description
logging.getLogger("formulae").setLevel(logging.ERROR)
from c02 import ev, render, uniq, V
# top-level RHS: chain of items, each: ('+'|'-', item) where item = tree | '0' | '1' | '-1' | group(e_lead, etree, gtree)
atoms=[('var','a'),('var','b'),('var','f(x, 2)')]
ops=['+','-',':','*','/']
def trees(n):
    if n==0:
        yield from atoms; return
    for k in range(n):
        for l in trees(k):
            for r in trees(n-1-k):
                for op in ops: yield (op,l,r)
    for l in trees(n-1):
        for p in (2,3): yield ('**',l,p)
gatoms=[('var','g'),('var','h')]
def gtrees():
    yield ('var','g'); yield (':',('var','g'),('var','h')); yield ('+',('var','g'),('var','h')); yield ('/',('var','g'),('var','h')); yield ('*',('var','g'),('var','h'))
def ref_formula(items):
    common=[()]; group=[]   # implicit intercept
    for sign,it in items:
        if it[0]=='lit':
            v=it[1]
            add = (v=='1') if sign=='+' else (v in('0','-1'))  # '+1' adds; '-0'/'- -1' weird -> skip generating
            if sign=='+' and v=='1':
                if () not in common: common.append(())
            elif (sign=='+' and v in ('0','-1')) or (sign=='-' and v=='1'):
                common=[t for t in common if t!=()]
        elif it[0]=='grp':
            lead,e,g=it[1],it[2],it[3]
            E=ev(e).terms; G=ev(g).terms
            eff=list(E)
            if lead in (None,'1'): eff=[()]+eff
            pairs=[(x,y) for x in uniq(eff) for y in G]
            for p in pairs:
                if sign=='+':
                    if p not in group: group.append(p)
                else:
                    group=[q for q in group if q!=p]
        else:
            T=ev(it).terms
            if sign=='+':
                for t in T:
                    if t not in common: common.append(t)
            else:
                common=[t for t in common if t not in T]
    return common,group
def rend_item(it):
    if it[0]=='lit': return it[1]
    if it[0]=='grp':
        lead,e,g=it[1],it[2],it[3]
        return "("+(lead+" + " if lead else "")+render(e)+" | "+render(g)+")"
    return render(it)
def canon(common,group):
    c=frozenset(frozenset(t) for t in common)
    g=frozenset((frozenset(x),frozenset(y)) for x,y in group)
    return c,g
def impl(s):
    m=model_description(s)
    com=[() if t.name=='Intercept' else tuple(str(c.name) for c in t.components) for t in m.common_terms]
    grp=[(() if t.expr.name=='Intercept' else tuple(str(c.name) for c in t.expr.components), tuple(str(c.name) for c in t.factor.components)) for t in m.group_terms]
    return com,grp
small=list(trees(0))+list(trees(1))
lits=[('lit','0'),('lit','1'),('lit','-1')]
cnt=collections.Counter(); ex=collections.defaultdict(list)
def run(items):
    s="y ~ "+rend_item(items[0][1])
    for sign,it in items[1:]: s+=f" {sign} "+rend_item(it)
    want=canon(*ref_formula(items))
    try:
        got=canon(*impl(s))
        k='ok' if got==want else 'MISMATCH'
    except Exception as e:
        k=('EXC',type(e).__name__,str(e)[:50])
    cnt[k]+=1
    if k!='ok' and len(ex[k])<8: ex[k].append((s,)+(() if k!='MISMATCH' else (sorted(map(sorted,want[0])),sorted(map(sorted,got[0])),sorted((sorted(a),sorted(b)) for a,b in want[1]),sorted((sorted(a),sorted(b)) for a,b in got[1]))))
# 1) intercept literal placement among up to 3 items
pool=small[:8]+lits
for n in (1,2,3):
    for its in itertools.product(pool,repeat=n):
        for signs in itertools.product('+-',repeat=n-1):
            items=[('+',its[0])]+list(zip(signs,its[1:]))
            # skip '- 0' and '- -1' (undocumented)
            if any(sg=='-' and it[0]=='lit' and it[1]!='1' for sg,it in items): continue
            run(items)
# 2) group items
for lead in (None,'0','1','-1'):
    for e in small:
        for g in gtrees():
            run([('+',('grp',lead,e,g))])
            run([('+',('var','a')),('+',('grp',lead,e,g))])
            run([('+',('grp',lead,e,g)),('-',('grp',None,('var','a'),('var','g')))])
for e in [('var','a')]:
    for lead in (None,'0','1','-1'):
        # intercept-only effect
        pass
for g in gtrees():
    run([('+',('grp',None,('lit','1'),g))]) if False else None
print(cnt)
for k,v in ex.items():
    print(k)
    for e in v: print('    ',e)
