import itertools, logging, sys, collections, warnings
if "rc" in sys.argv: sys.path.insert(0,"/tmp/exp/rc")
import numpy as np, pandas as pd
from formulae import design_matrices
logging.getLogger("formulae").setLevel(logging.ERROR)
rng=np.random.default_rng(3)
N=30
data=pd.DataFrame({'y':rng.normal(size=N),'x':rng.normal(size=N)*3+10,'z':rng.normal(size=N),
  'f':rng.choice(['b','a'],size=N),'g':rng.choice(['g3','g1','g2'],size=N),
  'h':pd.Categorical(rng.choice(['lo','mid','hi','top'],size=N),categories=['lo','mid','hi','top'],ordered=True),
  'u':pd.Categorical(rng.choice(['q','p','r'],size=N)),
  'k':rng.integers(1,4,size=N), 'n':rng.integers(5,9,size=N), 's':rng.integers(0,5,size=N), 'unused':rng.normal(size=N)})
def mats(dm):
    out={}
    for part in ('response','common','group'):
        M=getattr(dm,part)
        if M is not None:
            out[part]=np.asarray(M.design_matrix,dtype=float)
            if part=='common': out['clabels']=list(M.as_dataframe().columns)
            if part=='group': out['glabels']=[l for t in M.terms.values() for l in t.labels]
    return out
def cmp(a,b,perm=None):
    bad=[]
    for k in a:
        if k not in b: bad.append(('missing',k)); continue
        if isinstance(a[k],list):
            if a[k]!=b[k]: bad.append(('labels',k))
        else:
            A=a[k] if perm is None else a[k][perm]
            if A.shape!=b[k].shape or not np.allclose(A,b[k],rtol=1e-9,atol=1e-9): bad.append(('values',k))
    return bad
def check(f):
    base=mats(design_matrices(f,data))
    out=[]
    perm=rng.permutation(N)
    d2=data.iloc[perm]                      # permuted rows, keeps permuted index labels
    out+= [('perm',)+b for b in cmp(base,mats(design_matrices(f,d2)),perm)]
    d2r=data.iloc[perm].reset_index(drop=True)
    out+= [('perm_reset',)+b for b in cmp(base,mats(design_matrices(f,d2r)),perm)]
    d3=data.copy(); d3.index=rng.choice(['i','j','k'],size=N)   # non-unique string index
    out+= [('index',)+b for b in cmp(base,mats(design_matrices(f,d3)))]
    d3=data.copy(); d3.index=rng.normal(size=N)
    out+= [('findex',)+b for b in cmp(base,mats(design_matrices(f,d3)))]
    d4=data[list(reversed(data.columns))]
    out+= [('colorder',)+b for b in cmp(base,mats(design_matrices(f,d4)))]
    d5=data.drop(columns=['unused']).assign(extra1='zz',extra2=np.nan)
    out+= [('cols',)+b for b in cmp(base,mats(design_matrices(f,d5)))]
    return out
fs=["y ~ x + f + g","y ~ center(x)","y ~ scale(x) + standardize(z)","y ~ bs(x, df=4)","y ~ bs(x, df=4, intercept=True):f","y ~ poly(x, 3)", "y ~ scale(np.log(x))", "y ~ f:scale(x)", "y ~ C(k)", "y ~ C(h)", "y ~ h", "y ~ u", "y ~ C(u)", "y ~ T(g, 'g2')", "y ~ S(g)", "y ~ I(x + z)", "y ~ I(x * z > 1)", "y ~ binary(g, 'g2')", "y~binary(k)", "y ~ x + offset(z)", "y ~ offset(2)", "y ~ x + (x|g)", "y ~ (scale(x)|g)", "y~(f|g)", "y ~ (x|g:f)", "y ~ (1|C(k))", "y ~ (h|g)", "y ~ f*g", "g ~ x", "h ~ x", "f[a] ~ x", "p(s, n) ~ x", "p(s, 10) ~ x", "y ~ x + `unused`", "y ~ np.log(x):g"]
for f in fs:
    try: print(f, check(f) or 'ok')
    except Exception as e: print(f,'EXC',type(e).__name__,e)
