import logging, sys, warnings
if "rc" in sys.argv: sys.path.insert(0,"/tmp/exp/rc")
import numpy as np, pandas as pd
from formulae import design_matrices, config
logging.getLogger("formulae").setLevel(logging.ERROR)
rng=np.random.default_rng(5)
N=24
d=pd.DataFrame({'y':rng.normal(size=N),'x':rng.normal(size=N),'f':rng.choice(['a','b'],size=N),'g':rng.choice(['g1','g2','g3'],size=N),'h':rng.choice(['h1','h2'],size=N)})
nd=pd.DataFrame({'x':[1.,2.],'f':['a','b'],'g':['NEW','g1'],'h':['h1','h2']})
config.EVAL_UNSEEN_CATEGORIES='silent'
for f in ["y ~ (x|g)","y ~ (f|g)","y ~ (0+f|g)","y ~ (bs(x, df=3)|g)","y ~ (poly(x,2)|g)","y ~ (f:h|g)", "y ~ (x|g) + (1|h)", "y ~ (f:x|g)"]:
    dm=design_matrices(f,d)
    for nm,obj in (('train',dm.group),('new',dm.group.evaluate_new_data(nd))):
        try:
            s=str(obj); ok=str(obj.design_matrix.shape) in s
            print(f,nm,'printed', 'shape-ok' if ok else 'SHAPE-MISSING', obj.factors_with_new_levels)
        except Exception as e:
            print(f,nm,'EXC',type(e).__name__,e)
    try: str(dm); repr(dm.common); repr(dm.response)
    except Exception as e: print('other print fail',e)
config.EVAL_UNSEEN_CATEGORIES='error'
