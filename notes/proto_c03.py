import itertools, logging, sys, collections, warnings
if "rc" in sys.argv: sys.path.insert(0,"/tmp/exp/rc")
import numpy as np, pandas as pd
from formulae import design_matrices
logging.getLogger("formulae").setLevel(logging.ERROR)
rng=np.random.default_rng(0)
def make_data(levels, reps=2):
    # levels: dict cat->n levels
    names=list(levels)
    rows=list(itertools.product(*[range(levels[n]) for n in names]))*reps
    d={n:[f"{n}{r[i]}" for r in rows] for i,n in enumerate(names)}
    N=len(rows)
    d['x']=rng.normal(size=N); d['z']=rng.normal(size=N); d['y']=rng.normal(size=N)
    return pd.DataFrame(d)
def ref_matrix(terms, intercept, data, cats):
    cols=[]
    if intercept: cols.append(np.ones(len(data)))
    for t in terms:
        M=np.ones((len(data),1))
        for fct in t:
            if fct in cats:
                lv=sorted(data[fct].unique())
                I=np.column_stack([(data[fct]==l).astype(float) for l in lv])
            else:
                I=data[fct].to_numpy()[:,None]
            M=np.column_stack([M[:,i]*I[:,j] for i in range(M.shape[1]) for j in range(I.shape[1])])
        cols.append(M)
    return np.column_stack(cols) if cols else np.zeros((len(data),0))
def rank(M): 
    return np.linalg.matrix_rank(M) if M.size else 0
def check(terms, intercept, data, cats):
    f="y ~ " + (" + ".join((["1"] if intercept else ["0"])+[":".join(t) for t in terms]))
    R=ref_matrix(terms,intercept,data,cats); r=rank(R)
    try:
        with warnings.catch_warnings():
            warnings.simplefilter("ignore")
            dm=design_matrices(f,data)
        X=dm.common.design_matrix.astype(float) if dm.common is not None else np.zeros((len(data),0))
    except Exception as e:
        return f,('EXC',type(e).__name__, str(e)[:50])
    rx=rank(X)
    if rx<X.shape[1]: return f,('RANKDEF',X.shape[1],rx,r)
    if rx!=r: return f,('DIM',rx,r)
    if rank(np.column_stack([X,R]))!=r: return f,('SPAN',)
    return f,('ok',)
if __name__=='__main__':
    cats=['f','g','h']
    data=make_data({'f':2,'g':3,'h':2})
    vars_=['f','g','h','x']
    allterms=[]
    for k in range(1,4):
        for c in itertools.combinations(vars_,k):
            for p in itertools.permutations(c):
                allterms.append(p)
    if __name__ != "__main__": raise SystemExit if False else None
    print(len(allterms))
    cnt=collections.Counter(); ex=collections.defaultdict(list)
    n=0
    for k in range(1,3):
        for ts in itertools.permutations(allterms,k):
            # skip families containing two terms with same factor set
            if len(set(frozenset(t) for t in ts))<len(ts): continue
            for ic in (True,False):
                f,res=check(ts,ic,data,cats); n+=1
                cnt[res[0]]+=1; 
                if res[0]!='ok' and len(ex[res[:2]])<8: ex[res[:2]].append((f,res))
    print(n,cnt)
    for k,v in ex.items():
        print(k)
        for e in v: print('   ',e)
