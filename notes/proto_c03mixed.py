import itertools, logging, sys, collections, warnings, multiprocessing as mp
if "rc" in sys.argv: sys.path.insert(0,"/tmp/exp/rc")
import numpy as np, pandas as pd
from formulae import design_matrices
from formulae.transforms import BSpline, Polynomial
logging.getLogger("formulae").setLevel(logging.ERROR)
def rank(M): return np.linalg.matrix_rank(M) if M.size else 0
rng=np.random.default_rng(1)
cats={'f':2,'g':3,'h':2,'k':2}
names=list(cats)
rows=list(itertools.product(*[range(cats[n]) for n in names]))*3
d={n:[f"{n}{r[i]}" for r in rows] for i,n in enumerate(names)}
d['k']=[r[3]+1 for r in rows]
N=len(rows)
d['x']=rng.normal(size=N); d['z']=rng.normal(size=N); d['y']=rng.normal(size=N)
data=pd.DataFrame(d)
def ind(col):
    lv=sorted(pd.unique(col)); return np.column_stack([(col==l).to_numpy().astype(float) for l in lv])
x=data['x'].to_numpy(); z=data['z'].to_numpy()
ATOMS={ # name -> (base var for identity, reference columns)
 'f':('f',ind(data['f'])),'g':('g',ind(data['g'])),'h':('h',ind(data['h'])),
 'C(k)':('k',ind(data['k'])),'T(f)':('f',ind(data['f'])),'S(g)':('g',ind(data['g'])),"C(h, Sum)":('h',ind(data['h'])),
 'x':('x',x[:,None]),'z':('z',z[:,None]),'scale(x)':('x',((x-x.mean())/x.std())[:,None]),
 'bs(z, df=3)':('z',BSpline()(z,df=3)),'poly(x, 2)':('x',Polynomial()(x,2)),
}
def ref_matrix(terms,ic):
    cols=[np.ones((N,1))] if ic else []
    for t in terms:
        M=np.ones((N,1))
        for a in t:
            I=ATOMS[a][1]
            M=np.column_stack([M[:,i]*I[:,j] for i in range(M.shape[1]) for j in range(I.shape[1])])
        cols.append(M)
    return np.column_stack(cols) if cols else np.zeros((N,0))
atomnames=list(ATOMS)
def gen(seed):
    r=np.random.default_rng(seed)
    nt=r.integers(1,4)
    terms=[]; seen=set()
    for _ in range(nt):
        k=r.integers(1,4)
        while True:
            t=tuple(r.choice(atomnames,size=k,replace=False))
            bases=[ATOMS[a][0] for a in t]
            if len(set(bases))<len(bases): continue   # no two atoms on same base var in a term
            break
        key=frozenset(ATOMS[a][0] for a in t)
        if key in seen: continue
        seen.add(key); terms.append(t)
    # one atom per base var across the formula: map base->atom consistently
    m={}
    terms2=[]
    for t in terms:
        terms2.append(tuple(m.setdefault(ATOMS[a][0],a) for a in t))
    return terms2, bool(r.integers(0,2))
def check(seed):
    terms,ic=gen(seed)
    f="y ~ " + (" + ".join((["1"] if ic else ["0"])+[":".join(t) for t in terms]))
    R=ref_matrix(terms,ic); rr=rank(R)
    try:
        with warnings.catch_warnings():
            warnings.simplefilter("ignore")
            dm=design_matrices(f,data)
        X=dm.common.design_matrix.astype(float) if dm.common is not None else np.zeros((len(data),0))
    except Exception as e:
        import traceback
        tb=traceback.extract_tb(e.__traceback__)
        fr=[t for t in tb if 'formulae' in t.filename][-1]
        return f,('EXC',type(e).__name__, str(e)[:50], fr.name)
    rx=rank(X)
    if rx<X.shape[1]: return f,('RANKDEF',X.shape[1],rx,rr)
    if rx!=rr: return f,('DIM',rx,rr)
    if rank(np.column_stack([X,R]))!=rr: return f,('SPAN',)
    return f,('ok',)
if __name__=='__main__':
    n=int(sys.argv[1])
    cnt=collections.Counter(); ex=collections.defaultdict(list)
    with mp.Pool(16) as p:
        for f,res in p.imap_unordered(check,range(n),chunksize=32):
            key=res[0] if res[0]!='EXC' else res[:2]+res[3:]
            cnt[key]+=1
            if res[0]!='ok' and len(ex[key])<8: ex[key].append((f,res))
    print(cnt)
    for k,v in ex.items():
        print(k)
        for e in v: print('   ',e)
